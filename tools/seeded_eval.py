#!/usr/bin/env python3
"""Confirms seeded changes and runs the checks against them.

  python3 tools/seeded_eval.py confirm C05 /tmp/wt_C05     # verify + store under /verif/seeded/C05
  python3 tools/seeded_eval.py run C05 [check ids...]      # apply to /repo, run quick checks, undo
"""
import json, os, shutil, subprocess, sys, time

ROOT = os.path.dirname(os.path.dirname(os.path.abspath(__file__)))


def sh(cmd, cwd=None, env=None, timeout=3600):
  p = subprocess.run(cmd, shell=True, cwd=cwd, env=env, stdout=subprocess.PIPE, stderr=subprocess.STDOUT, timeout=timeout)
  return p.returncode, p.stdout.decode(errors='replace')


def confirm(pid, wt, sid=None):
  """sid: directory name under /verif/seeded (defaults to the property id)."""
  sid = sid or pid
  d = os.path.join(ROOT, 'seeded', sid)
  os.makedirs(d, exist_ok=True)
  patch = os.path.join(wt, 'patch_%s.diff' % pid)
  demo = os.path.join(wt, 'demo_%s.py' % pid)
  meta = {'property': pid, 'worktree_commit': sh('git rev-parse HEAD', wt)[1].strip()}
  env = dict(os.environ, PYTHONPATH=wt)
  # start from a pristine tree and apply exactly the recorded patch (no git stash: the
  # stash is shared between worktrees)
  sh('git checkout -- malt', wt)
  rc_p, out_p = sh('git apply %s' % patch, wt)
  rc_b, out_b = sh('python3 /tmp/baseline_wt.py %s' % wt)
  meta['baseline_with_change'] = out_b.strip().split('\n')[0]
  rc1, out1 = sh('/venv/bin/python demo_%s.py' % pid, wt, env)
  sh('git apply -R %s' % patch, wt)
  rc0, out0 = sh('/venv/bin/python demo_%s.py' % pid, wt, env)
  sh('git apply %s' % patch, wt)
  meta['demo_exit_with_change'] = rc1
  meta['demo_exit_without_change'] = rc0
  meta['demo_output_with_change'] = out1[-1500:]
  rc_a, out_a = sh('git -C /repo apply --check %s' % patch)
  meta['applies_to_repo_head'] = rc_a == 0
  meta['confirmed'] = (rc_p == 0 and rc_b == 0 and rc1 == 1 and rc0 == 0 and rc_a == 0)
  meta['what_was_run'] = ['git apply patch.diff on a pristine scratch worktree',
                          'python3 /tmp/baseline_wt.py <worktree>  (pinned passing list, with the change)',
                          'PYTHONPATH=<worktree> /venv/bin/python demo.py  (with the change: exit 1; after git apply -R: exit 0)',
                          'git -C /repo apply --check patch.diff']
  shutil.copy(patch, os.path.join(d, 'patch.diff'))
  shutil.copy(demo, os.path.join(d, 'demo.py'))
  old = {}
  mp = os.path.join(d, 'meta.json')
  if os.path.exists(mp):
    old = json.load(open(mp))
  old.update(meta)
  json.dump(old, open(mp, 'w'), indent=1)
  print(sid, 'confirmed' if meta['confirmed'] else 'NOT CONFIRMED', meta['baseline_with_change'], rc1, rc0, rc_a)


def run(sid, checks):
  pid = sid
  d = os.path.join(ROOT, 'seeded', sid)
  patch = os.path.join(d, 'patch.diff')
  rc, out = sh('git -C /repo status --porcelain --untracked-files=no')
  assert out.strip() == '', '/repo has local changes'
  rc, out = sh('git -C /repo apply %s' % patch)
  if rc != 0:
    # written against an older HEAD and overlapping a later fix: commit: try a 3-way merge
    rc, out = sh('git -C /repo apply --3way %s' % patch)
    sh('git -C /repo reset -q')
    if rc != 0:
      sh('git -C /repo checkout -- .')
      mp = os.path.join(d, 'meta.json')
      meta = json.load(open(mp))
      meta['applies_to_repo_head'] = False
      json.dump(meta, open(mp, 'w'), indent=1)
      print(pid, 'patch does not apply to the current /repo HEAD:', out.strip()[:200])
      return
  res = {}
  try:
    for c in checks:
      t0 = time.time()
      rc, out = sh('python3 -m vf check %s --tier quick' % c, ROOT, timeout=3000)
      viol = [l for l in out.split('\n') if l.startswith('VIOLATION')]
      titles = [l for l in out.split('\n') if 'VIOLATION' not in l and ('violated' in l or 'differs' in l or 'fails' in l or 'breaks' in l)][:3]
      res[c] = {'exit': rc, 'violations': len(viol), 'first': [t[:300] for t in titles], 'wall_s': round(time.time() - t0)}
      print(pid, 'check', c, 'exit', rc, 'violations', len(viol), flush=True)
  finally:
    sh('git -C /repo checkout -- .')
    shutil.rmtree(os.path.join(ROOT, 'replays'), ignore_errors=True)
  mp = os.path.join(d, 'meta.json')
  meta = json.load(open(mp))
  meta.setdefault('detection', {}).update(res)
  json.dump(meta, open(mp, 'w'), indent=1)


if __name__ == '__main__':
  if sys.argv[1] == 'confirm':
    confirm(sys.argv[2], sys.argv[3], sys.argv[4] if len(sys.argv) > 4 else None)
  else:
    run(sys.argv[2], sys.argv[3:] or [sys.argv[2][:3]])
