#!/bin/sh
# usage: tools/run_all.sh quick|thorough [ids...]   -- runs the checks one after the other, prints exit codes
tier=${1:-quick}; shift
ids=${@:-C01 C02 C03 C04 C05 C06 C07 C08 C09 C10 C11 C12 C13 C14 C16 C18 C19 C20}
cd "$(dirname "$0")/.."
for c in $ids; do
  s=$(date +%s)
  python3 -m vf check $c --tier $tier > /tmp/vf_run_$c.log 2>&1
  rc=$?
  echo "$c exit=$rc wall=$(( $(date +%s) - s ))s $(grep -c '^VIOLATION' /tmp/vf_run_$c.log) violations; $(tail -1 /tmp/vf_run_$c.log | cut -c1-160)"
done
