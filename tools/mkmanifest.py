#!/usr/bin/env python3
"""Regenerates /verif/MANIFEST.json from the table below (kept valid at all times)."""
import json
import os

ROOT = os.path.dirname(os.path.dirname(os.path.abspath(__file__)))

E1 = 'xh-diff (CrossHair/z3 differential symbolic execution of the real generated code)'
E2 = 'xh-path (CrossHair/z3 path-exhaustive instrumented execution vs. the real analyses)'
E3 = 'py2smt-bmc (AST -> transition system, z3 bounded model checking of thread schedules)'

CHECKS = {
    'C01': dict(
        level='translation_validation', engine='xh-diff', design='DESIGN.md §2 C01',
        technique='CrossHair (z3) symbolic execution of the generated code vs. the original function, per enumerated program; counterexamples replayed natively',
        text='For every enumerated program (bounded-exhaustive control-flow skeletons + seeded random tail) and option set, z3 decides obs(f,args)==obs(to_graph(f),args) for all int x, bool b, int lists of length<=2 and loop bound n<=3. Per-program verdicts are complete within those bounds; programs themselves are enumerated, not solved.',
        note='Trusted: CPython as reference semantics, CrossHair 0.0.110 modelling of int/bool/list, the tracer/environment classes of vf.rt. Bounds: n<=3, len(xs)<=2, program depth<=2 (quick) / 3 (thorough). Inconclusive obligations (time-outs) are counted, not claimed.'),
    'C02': dict(
        level='translation_validation', engine='xh-diff', design='DESIGN.md §2 C02',
        technique='CrossHair (z3) symbolic execution of the generated code driven by a functional (tracing-style) operator backend injected via get_extra_locals, vs. the original function',
        text='For every enumerated side-effect-free total program, z3 decides that the converted function run with operators that only use get_state/set_state (both branches executed, loop body traced once out of band, non-outputs restored) returns what CPython returns, for all inputs within n<=3, len(xs)<=2. A state variable missing from a state tuple, or a wrong nouts, changes the result for some input, which z3 finds.',
        note='Trusted: the functional backend in vf/backends.py as the model of a tracing backend; generator restriction to pure/total programs; CrossHair modelling. Programs are enumerated, not solved.'),
    'C03': dict(
        level='translation_validation', engine='xh-diff', design='DESIGN.md §2 C03',
        technique='CrossHair (z3) symbolic execution of the generated code with contract-asserting operator wrappers evaluated against the live caller frame at every dynamic operator invocation',
        text='On every path z3 can reach within the bounds, every dynamic if_stmt/while_stmt/for_stmt/and_/or_/if_exp invocation is checked against the documented calling contract (lengths, position-by-position denotation via sentinels evaluated by name in the enclosing frame, read idempotence, write-back neutrality, callback arities, nouts bounds, iterate_names and exactly the user-placed loop directives).',
        note='Trusted: transcription of operators.md contract in vf/backends.py:_contract; loops identified by a tracer call opening each loop body; sys._getframe(1) is the emitting function.'),
    'C04': dict(
        level='translation_validation', engine='xh-diff', design='DESIGN.md §2 C04',
        technique='CrossHair (z3) symbolic execution of the generated code on opaque (non-truth-testable) wrapped inputs with an unwrapping operator backend; z3 searches for an input reaching a surviving native construct',
        text='Inputs are wrapped in T (bool(T) raises); only overloadable operators unwrap. For every enumerated program and all inputs within the bounds, the converted function never truth-tests a traced value natively, never enters a user callee outside a converted_call dispatch, and returns the original result.',
        note='Trusted: T wrapper semantics; a surviving native construct is only observable if its test depends on x, b or list elements (generated conditions do); the loop bound n stays a plain int (CrossHair range model).'),
    'C14': dict(
        level='exploration', engine='xh-diff', design='DESIGN.md §2 C14',
        technique='CrossHair (z3) symbolic execution of py_builtins.overload_of(b) against the builtin b, one harness per call shape, symbolic argument values; plus differential execution of converted programs calling eval/locals/globals/super()',
        text='For each substituted builtin and each call shape Python accepts (positional / documented keywords / optional parameters present or absent) z3 decides equal outcome (value, NaN-aware; exception type; for lazy results equal items and equal laziness measured with a counting iterable) for all int/float/bool values, str of length<=2, int lists of length<=4.',
        note='Bounds: str len<=2 (int/float parsing is slow in z3; inconclusive harnesses are reported, not claimed), lists<=4, range args within +-5. Trusted: CrossHair float/str models.'),
    'C16': dict(
        level='model_checking', engine='py2smt-bmc', design='DESIGN.md §2 C16',
        technique='z3 bounded model checking (QF_BV) over all schedules of 2-3 threads through the steps extracted from the real ag_ctx AST; CrossHair (z3) on one inductive step of each real status wrapper from an arbitrary symbolic stack; CrossHair differential on converted programs with probes',
        text='Inductive step: from an arbitrary valid stack (depth 1..4, arbitrary statuses) one real wrapper (ControlStatusCtx block, FunctionScope, with_function_scope, do_not_convert, call_with_unspecified_conversion_status, convert().wrapper, internal_convert) is entered and left around a body that returns or raises: the stack is element-wise identical afterwards and the status inside is as promised. Generated code: status identity before/after converted calls whose callees raise at symbolic points.',
        note='STUB: converted_call replaced by a direct call inside convert()/internal_convert() harnesses. Induction hypothesis: callee leaves the stack as found.'),
    'C20': dict(
        level='exploration', engine='xh-diff', design='DESIGN.md §2 C20',
        technique='CrossHair (z3) drives an exhaustive case split over 3 flags x 7 feature bits x spelling; the real ConversionOptions code runs natively per case (solver-exhausted complete enumeration)',
        text='All 1024 option values x 5 spellings: to_ast/unparse/eval round trip gives an equal value with equal hash; pairs differing in exactly one field/feature compare unequal, identical ones equal with equal hash; call_options and uses() as documented; ag__.STD shortcut exactly for the standard options.',
        note='Finite space, exhaustive=true. The solver only owns the case split; stated as such.'),
    'C09': dict(
        level='translation_validation', engine='xh-diff', design='DESIGN.md §2 C09',
        technique='CrossHair (z3) differential execution of to_graph(f) vs f per (function, binding shape) with symbolic argument/cell/global values',
        text='For an enumerated family of signatures (positional-only, defaults, *args, keyword-only, **kwargs, mutable defaults), closure shapes (shared cells, functions created in a loop, unassigned cell, directive-only free variable), lambdas and methods, z3 decides per binding shape (number of positionals x keyword subset incl. unknown keywords) that the converted function has the same outcome (value or TypeError) for all argument values, and that values written through the original sibling setter / module global / default object are seen by the converted function.',
        note='Signatures/closure shapes/binding shapes are enumerated, values are symbolic. Identity facts (defaults, kwdefaults, globals, cells, decorators) are concrete side conditions, reported as such.'),
    'C13': dict(
        level='fault_enumeration', engine='xh-diff', design='DESIGN.md §2 C13',
        technique='CrossHair (z3) on the real api.converted_call: symbolic argument values per (callable kind, call shape); solver-exhausted case analysis over option bits x ctx status and over fault stage x fault class',
        text='Transparency: obs(converted_call(f,args,kwargs)) == obs(f(*args,**kwargs)) for 29 callable kinds x call shapes, all int values. Policy: conversion attempted iff the documented decision table says so, for all 8 option values x 3 context statuses per kind. Fall-back: for each of 20 pipeline stages x 7 exception classes the call still returns the direct result, the target runs once, exactly one warning is logged, the failure is remembered and the second call enters no stage.',
        note='Decision table transcribed from functions.md. Faults are exceptions raised by patched module-level stage entry points. wrapt/TF plugins outside.'),
    'C10': dict(
        level='model_checking', engine='py2smt-bmc', design='DESIGN.md §2 C10',
        technique='z3 bounded model checking (QF_BV) over all thread schedules of the step list extracted from the real transform_function/cache AST, counterexample schedules replayed on real threads; CrossHair (z3) solver-exhausted enumeration of request histories against the real transpiler cache',
        text='Every history of H<=3 (thorough 4) requests (function, options) over a pool with shared code objects / same-named definitions / re-created functions x 4 option sets: each returned function equals a cache-less fresh conversion of exactly that function object under exactly those options (behaviour, defaults/globals/cells identity, generated source), and the source transformation ran at most once per (code, options).',
        note='Schedules: 2 threads with symbolic requests (quick), 3 threads same request with a 15 min cap (thorough; cap hit = inconclusive). Steps are atomic at the granularity of one dict/lock/attribute operation; stubs listed in evidence. Histories: transform_ast is a counting stub. Weak-reference collection concurrent with a lookup is outside.'),
    'C05': dict(
        level='exploration', engine='xh-path', design='DESIGN.md §2 C05',
        technique='CrossHair (z3) enumerates every branch-decision vector (<=K opaque booleans) of an instrumented copy of each enumerated program executed by CPython; the recorded statement trace must be a path of the graph built by the real cfg.build',
        text='For every enumerated program and every sequence of at most K branch decisions, the sequence of CFG-owning nodes that CPython actually executes (incl. break/continue/return through enclosing finally blocks, raise to enclosing handlers, loop else clauses) starts at graph.entry, follows node.next edges, and ends in an exit or raise node. Concrete side conditions: next/prev mirror, entry has no predecessor, stmt_next/stmt_prev recomputed from node ownership.',
        note='K=8 quick / 12 thorough decisions per run; executions needing more are outside. Implicit exceptions and exceptional propagation through finally are outside (as the cfg docstring states). CPython is the oracle.'),
    'C06': dict(
        level='exploration', engine='xh-path', design='DESIGN.md §2 C06',
        technique='same path-exhaustive exploration; each Definition is mapped to its CFG node through a definition_factory; last-writer log of the instrumented run vs anno.Static.DEFINITIONS / DEFINED_VARS_IN',
        text='On every explored path: at every successful read of a local/parameter the statement that actually bound the value is among the definitions attached to that read; at every entry into if/for/while/try every bound local is in DEFINED_VARS_IN. Concrete side condition: the transfer equations hold on a fresh run of the real Analyzer.',
        note='Intraprocedural: writes by other activations (nonlocal writes in callees) are outside. Composite names outside.'),
    'C07': dict(
        level='exploration', engine='xh-path', design='DESIGN.md §2 C07',
        technique='same path-exhaustive exploration; use-before-overwrite computed backwards over the recorded trace vs. live_in/live_out of a fresh liveness.Analyzer run and LIVE_VARS_IN/OUT annotations',
        text='On every explored path and at every statement boundary: a variable whose current value is read later before being overwritten (directly or by a local function closing over it, incl. nonlocal) is in live_out of the finished statement, live_in of the next, and in LIVE_VARS_OUT/IN of every compound statement left/entered. Concrete side condition: liveness equations hold.',
        note='Lambda closures used after their defining statement are a documented limit and not generated.'),
    'C08': dict(
        level='exploration', engine='xh-path', design='DESIGN.md §2 C08',
        technique='same path-exhaustive exploration for the per-statement read/modified/deleted inclusion; concrete comparison of per-function name classes with CPython symtable (stated as concrete)',
        text='Second conjunct (solver-explored): for every executed statement instance on every explored path, names actually read are in Scope.read and names actually rebound/deleted are in modified/deleted of that statement. First conjunct: bound locals, globals, nonlocals, parameters per function equal CPython symtable classification (concrete set comparison per program).',
        note='The first conjunct is a concrete comparison (no solver quantifier); claimed as a side condition only. Comprehension targets / except names / lambda bodies outside.'),
    'C11': dict(
        level='translation_validation', engine='xh-diff', design='DESIGN.md §2 C11',
        technique='CrossHair (z3) differential execution of converted programs whose identifiers are renamed adversarially to the converter vocabulary; solver-exhausted unit harness on Namer.new_symbol',
        text='C01-class programs with every user identifier renamed to a name the converter likes to generate (plus one write-only local and one read-only global from the vocabulary) still convert and behave identically for all inputs within the bounds; Namer.new_symbol never returns a name from the namespace, the reserved set or its own history, for all subsets of a per-root universe.',
        note='Identifier assignments are seeded random. Concrete side condition (scope-exact comparison of generated names with user identifiers) only for programs without nested user scopes. A user variable named ag__ is outside.'),
    'C12': dict(
        level='translation_validation', engine='xh-diff', design='DESIGN.md §2 C12',
        technique='CrossHair (z3) differential execution of malt.convert(...)(f) vs f on programs with one injected failing statement; inputs chosen by z3 select which statement fails and in which iteration; traceback of the original is the location oracle',
        text='For every enumerated program with an injected failure (11 failure kinds, any function/nesting position) and all inputs within the bounds: same outcome kind, exception type per the documented re-creation rules (three-way rule), original message contained, and ag_error_metadata.translated_stack restricted to the user file equals the original traceback user frames (innermost first, one per separately converted function). Unit harness: _stack_trace_inside_mapped_code on symbolic frame lists (<=4 frames).',
        note='The static claim about every source-map entry is validated only through failing executions. Failures inside try bodies with handlers in the same function are not generated.'),
    'C18': dict(
        level='translation_validation', engine='xh-diff', design='DESIGN.md §2 C18',
        technique='CrossHair (z3) differential execution of the compiled output of the real anf.transform (6 configurations) vs. the input function; tracer log order = evaluation order',
        text='For every enumerated program with tracer calls in every operand position (call args, keywords, starred, subscripts, slices, binary/unary/compare operands, displays, return/raise operands, if tests, for iterables, with items) and every input within the bounds, the ANF output returns the same value with the same tracer log; rejected programs contain a documented lazy construct. Concrete side conditions: positions the configuration asks to be named hold trivial nodes; temporaries assigned once.',
        note='Program family is flat (effectful operands are direct tracer calls with leaf arguments) so the two listed evaluation-order findings cannot apply; those are re-established by witnesses. tmp_1xxx user identifiers outside.'),
    'C19': dict(
        level='exploration', engine='xh-path', design='DESIGN.md §2 C19',
        technique='CrossHair (z3) symbolic execution of an instrumented copy of each program on symbolic int/float/bool inputs (real conditions); type probes compare run-time types with the sets attached by the real type_inference.resolve under a truthful resolver',
        text='For every enumerated typed program and every path z3 can reach over x:int, y:float, b:bool, -3<=k<=3: at every executed annotated name/expression the run-time type is in the inferred set (isinstance), and at every entry of a local function the captured variables are covered by its CLOSURE_TYPES.',
        note='Truthful resolver computes operator result types by evaluating CPython on representative values. Element types of containers/attributes are answered "unknown".'),
}

NOT_APPLICABLE = {
    'C15': 'source recovery is decided by C-implemented inspect/linecache/tokenize/ast.parse; a symbolic source string is realised at that boundary, so a solver verdict over layouts is impossible (DESIGN §C15)',
    'C17': 'for a fixed program the statement is a closed structural fact about one artifact; no input/path/schedule remains for a solver to range over (DESIGN §C17)',
}

PENDING = 'check not built yet in this round (planned, see DESIGN.md)'


def main():
  props = [json.loads(l)['id'] for l in open(os.path.join(ROOT, 'properties.jsonl'))]
  checks = []
  for pid in props:
    c = CHECKS.get(pid)
    if not c:
      continue
    checks.append({
        'property_id': pid,
        'quick_cmd': 'python3 -m vf check %s --tier quick' % pid,
        'thorough_cmd': 'python3 -m vf check %s --tier thorough' % pid,
        'evidence_file': 'evidence/%s.json' % pid,
        'replay_cmd_template': 'python3 -m vf replay {path}',
        'engine': c['engine'],
        'level_claimed': {'category': c['level'], 'text': c['text'], 'design_ref': c['design']},
        'level_note': c['note'],
        'technique': c['technique'],
    })
  na = []
  for pid in props:
    if pid in CHECKS:
      continue
    na.append({'property_id': pid, 'reason': NOT_APPLICABLE.get(pid, PENDING)})
  man = {
      'version': 1,
      'setup_cmd': 'sh ./setup.sh',
      'hooks': {
          'guard': 'MALT_VERIF',
          'enable': 'no hooks are needed: every observation point is a public seam (PyToPy subclassing, get_extra_locals, definition_factory, module attributes); checks import /repo directly',
          'baseline_off_cmd': 'python3 tools/baseline.py',
          'source_commits': [],
          'add_only': True,
      },
      'engines': [
          {'name': 'xh-diff', 'path': 'vf/e1.py', 'kind_free_text': E1,
           'serves_properties': [p for p in props if CHECKS.get(p, {}).get('engine') == 'xh-diff']},
          {'name': 'xh-path', 'path': 'vf/e2.py', 'kind_free_text': E2,
           'serves_properties': [p for p in props if CHECKS.get(p, {}).get('engine') == 'xh-path']},
          {'name': 'py2smt-bmc', 'path': 'vf/bmc.py', 'kind_free_text': E3,
           'serves_properties': [p for p in props if CHECKS.get(p, {}).get('engine') == 'py2smt-bmc']},
      ],
      'checks': checks,
      'not_applicable': na,
      'notes': 'All checks are solver-based (CrossHair/z3 or z3 BMC) over code loaded from /repo\'s working tree on every run. Exit 0 = held on everything explored, 1 = VIOLATION (replayed natively first), 3 = harness failure (never a verdict).',
  }
  with open(os.path.join(ROOT, 'MANIFEST.json'), 'w') as fh:
    json.dump(man, fh, indent=1)
  print('MANIFEST.json: %d checks, %d not applicable/pending' % (len(checks), len(na)))


if __name__ == '__main__':
  main()
