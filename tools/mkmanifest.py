#!/usr/bin/env python3
"""Regenerates /verif/MANIFEST.json from the table below (kept valid at all times)."""
import json
import os

ROOT = os.path.dirname(os.path.dirname(os.path.abspath(__file__)))

E1 = 'xh-diff (CrossHair/z3 differential symbolic execution of the real generated code)'
E2 = 'xh-path (CrossHair/z3 path-exhaustive instrumented execution vs. the real analyses)'
E3 = 'py2smt-bmc (AST -> transition system, z3 bounded model checking of thread schedules)'

CHECKS = {
    'C01': dict(
        level='translation_validation', engine='xh-diff', design='DESIGN.md §2 C01',
        technique='CrossHair (z3) symbolic execution of the generated code vs. the original function, per enumerated program; counterexamples replayed natively',
        text='For every enumerated program (bounded-exhaustive control-flow skeletons + seeded random tail) and option set, z3 decides obs(f,args)==obs(to_graph(f),args) for all int x, bool b, int lists of length<=2 and loop bound n<=3. Per-program verdicts are complete within those bounds; programs themselves are enumerated, not solved.',
        note='Trusted: CPython as reference semantics, CrossHair 0.0.110 modelling of int/bool/list, the tracer/environment classes of vf.rt. Bounds: n<=3, len(xs)<=2, program depth<=2 (quick) / 3 (thorough). Inconclusive obligations (time-outs) are counted, not claimed.'),
}

NOT_APPLICABLE = {
    'C15': 'source recovery is decided by C-implemented inspect/linecache/tokenize/ast.parse; a symbolic source string is realised at that boundary, so a solver verdict over layouts is impossible (DESIGN §C15)',
    'C17': 'for a fixed program the statement is a closed structural fact about one artifact; no input/path/schedule remains for a solver to range over (DESIGN §C17)',
}

PENDING = 'check not built yet in this round (planned, see DESIGN.md)'


def main():
  props = [json.loads(l)['id'] for l in open(os.path.join(ROOT, 'properties.jsonl'))]
  checks = []
  for pid in props:
    c = CHECKS.get(pid)
    if not c:
      continue
    checks.append({
        'property_id': pid,
        'quick_cmd': 'python3 -m vf check %s --tier quick' % pid,
        'thorough_cmd': 'python3 -m vf check %s --tier thorough' % pid,
        'evidence_file': 'evidence/%s.json' % pid,
        'replay_cmd_template': 'python3 -m vf replay {path}',
        'engine': c['engine'],
        'level_claimed': {'category': c['level'], 'text': c['text'], 'design_ref': c['design']},
        'level_note': c['note'],
        'technique': c['technique'],
    })
  na = []
  for pid in props:
    if pid in CHECKS:
      continue
    na.append({'property_id': pid, 'reason': NOT_APPLICABLE.get(pid, PENDING)})
  man = {
      'version': 1,
      'setup_cmd': 'sh ./setup.sh',
      'hooks': {
          'guard': 'MALT_VERIF',
          'enable': 'no hooks are needed: every observation point is a public seam (PyToPy subclassing, get_extra_locals, definition_factory, module attributes); checks import /repo directly',
          'baseline_off_cmd': 'python3 tools/baseline.py',
          'source_commits': [],
          'add_only': True,
      },
      'engines': [
          {'name': 'xh-diff', 'path': 'vf/e1.py', 'kind_free_text': E1,
           'serves_properties': [p for p in props if CHECKS.get(p, {}).get('engine') == 'xh-diff']},
          {'name': 'xh-path', 'path': 'vf/e2.py', 'kind_free_text': E2,
           'serves_properties': [p for p in props if CHECKS.get(p, {}).get('engine') == 'xh-path']},
          {'name': 'py2smt-bmc', 'path': 'vf/bmc.py', 'kind_free_text': E3,
           'serves_properties': [p for p in props if CHECKS.get(p, {}).get('engine') == 'py2smt-bmc']},
      ],
      'checks': checks,
      'not_applicable': na,
      'notes': 'All checks are solver-based (CrossHair/z3 or z3 BMC) over code loaded from /repo\'s working tree on every run. Exit 0 = held on everything explored, 1 = VIOLATION (replayed natively first), 3 = harness failure (never a verdict).',
  }
  with open(os.path.join(ROOT, 'MANIFEST.json'), 'w') as fh:
    json.dump(man, fh, indent=1)
  print('MANIFEST.json: %d checks, %d not applicable/pending' % (len(checks), len(na)))


if __name__ == '__main__':
  main()
