#!/usr/bin/env python3
"""Runs /repo's pinned baseline (guard off) and checks every stable_pass test still passes."""
import json, os, subprocess, sys, tempfile
import xml.etree.ElementTree as ET
base = json.load(open('/root/.vp/BASELINE.json'))
fd, xml = tempfile.mkstemp(suffix='.xml'); os.close(fd)
env = dict(os.environ); env.pop('MALT_VERIF', None)
cmd = base['cmd'].replace('<file>', xml)
subprocess.run(cmd, shell=True, env=env, stdout=subprocess.DEVNULL, stderr=subprocess.DEVNULL)
ok = set()
for tc in ET.parse(xml).getroot().iter('testcase'):
  bad = any(c.tag in ('failure', 'error', 'skipped') for c in tc)
  if not bad:
    ok.add('%s::%s' % (tc.get('classname'), tc.get('name')))
os.remove(xml)
missing = [t for t in base['stable_pass'] if t not in ok]
print('stable_pass=%d passing_now=%d missing=%d' % (len(base['stable_pass']), len(ok), len(missing)))
for m in missing[:20]: print('  NOT PASSING:', m)
sys.exit(1 if missing else 0)
