#!/usr/bin/env python3
"""Native-grid triage of E1 programs (no solver): python3 tools/triage.py <module> <attr|func()> [mode-json]

Prints, per program, conversion errors / native mismatches with both observations.
Used while writing program families; the checks themselves always run the solver."""
import json, os, subprocess, sys
ROOT = os.path.dirname(os.path.dirname(os.path.abspath(__file__)))
if os.environ.get('VF_IN_VENV') != '1':
  env = dict(os.environ, VF_IN_VENV='1', PYTHONPATH=ROOT, PYTHONHASHSEED='0')
  sys.exit(subprocess.call([os.path.join(ROOT, '.venv/bin/python'), __file__] + sys.argv[1:], env=env))
import importlib, tempfile, logging
logging.disable(logging.WARNING)
from vf import e1, pool
mod = importlib.import_module(sys.argv[1])
progs = eval(sys.argv[2], vars(mod))
mode = json.loads(sys.argv[3]) if len(sys.argv) > 3 else {'api': 'to_graph', 'recursive': True}
only = sys.argv[4] if len(sys.argv) > 4 else ''
tmp = tempfile.mkdtemp(prefix='vf_triage_')
bounds = {'n': 3, 'len': 2}
tasks = [('vf.e1', 'work', {'prog': p.as_dict(), 'mode': mode, 'bounds': bounds, 'tmpdir': tmp, 'grid_only': True})
         for p in progs if only in p.name]
names = [p.name for p in progs if only in p.name]
for n, r in zip(names, pool.run_tasks(tasks, hard_timeout=300)):
  v = r.get('verdict')
  if v == 'inconclusive' and r.get('detail') == 'grid only':
    print('ok      ', n, 'grid', r.get('grid'))
    continue
  print('PROBLEM ', n, v, r.get('kind'), (r.get('detail') or '')[:600])
  if r.get('cex'):
    try:
      of, og, same = e1.explain(r['module_source'], r['cex'][0])
      print('   args', r['cex'][0]); print('   orig', of[:2]); print('   conv', og[:2])
    except Exception as e:
      print('   explain failed', e)
import shutil; shutil.rmtree(tmp, ignore_errors=True)
