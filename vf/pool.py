"""A small pool of worker subprocesses with hard per-task time-outs.

Each worker is `python -m vf.worker`: it reads pickled (module, func, payload)
tasks on stdin and writes pickled results on a duplicate of its original
stdout (fd 1 is redirected to stderr so stray prints cannot corrupt the
protocol). Workers are started with distinct PYTHONHASHSEEDs because the order
of some generated code (nonlocal declarations, state-tuple tail) follows set
iteration order in malt.
"""
import os
import pickle
import queue
import select
import struct
import subprocess
import sys
import threading
import time

NCPU = int(os.environ.get('VF_JOBS', '0')) or (os.cpu_count() or 4)


def _send(f, obj):
  data = pickle.dumps(obj)
  f.write(struct.pack('<Q', len(data)))
  f.write(data)
  f.flush()


def _recv(f, timeout):
  """Read one message from file object f (unbuffered binary)."""
  fd = f.fileno()
  deadline = time.time() + timeout

  def read_n(n):
    buf = b''
    while len(buf) < n:
      left = deadline - time.time()
      if left <= 0:
        raise TimeoutError()
      r, _, _ = select.select([fd], [], [], min(left, 1.0))
      if not r:
        continue
      chunk = os.read(fd, n - len(buf))
      if not chunk:
        raise EOFError()
      buf += chunk
    return buf

  n, = struct.unpack('<Q', read_n(8))
  return pickle.loads(read_n(n))


class _Worker:

  def __init__(self, idx, stderr_path):
    self.idx = idx
    self.stderr_path = stderr_path
    self.proc = None

  def start(self):
    env = dict(os.environ)
    env['PYTHONHASHSEED'] = str((int(os.environ.get('VERIF_SEED', '0') or 0)
                                 + self.idx) % 4294967295)
    err = open(self.stderr_path, 'ab') if self.stderr_path else subprocess.DEVNULL
    self.proc = subprocess.Popen(
        [sys.executable, '-m', 'vf.worker'], stdin=subprocess.PIPE,
        stdout=subprocess.PIPE, stderr=err, env=env, bufsize=0)

  def stop(self):
    if self.proc is not None:
      try:
        self.proc.kill()
        self.proc.wait(timeout=5)
      except Exception:
        pass
      self.proc = None

  def run(self, task, timeout):
    if self.proc is None or self.proc.poll() is not None:
      self.start()
    try:
      _send(self.proc.stdin, task)
      return _recv(self.proc.stdout, timeout)
    except TimeoutError:
      self.stop()
      return {'verdict': 'inconclusive', 'detail': 'hard time-out after %ds' % timeout}
    except (EOFError, BrokenPipeError, OSError) as e:
      self.stop()
      return {'verdict': 'error', 'detail': 'worker died: %r' % (e,)}


def run_tasks(tasks, hard_timeout=300, jobs=None, stderr_path=None, progress=None):
  """tasks: list of (module, func, payload). Returns list of results in order.

  Every result is a dict; this function adds 'wall_s'.
  """
  jobs = min(jobs or NCPU, max(1, len(tasks)))
  q = queue.Queue()
  for i, t in enumerate(tasks):
    q.put((i, t))
  results = [None] * len(tasks)
  lock = threading.Lock()
  done = [0]

  def loop(idx):
    w = _Worker(idx, stderr_path)
    try:
      while True:
        try:
          i, t = q.get_nowait()
        except queue.Empty:
          return
        t0 = time.time()
        r = w.run(t, hard_timeout)
        if not isinstance(r, dict):
          r = {'verdict': 'error', 'detail': 'bad result %r' % (r,)}
        r['wall_s'] = round(time.time() - t0, 3)
        results[i] = r
        with lock:
          done[0] += 1
          if progress:
            progress(done[0], len(tasks), r)
    finally:
      w.stop()

  threads = [threading.Thread(target=loop, args=(k,), daemon=True) for k in range(jobs)]
  for th in threads:
    th.start()
  for th in threads:
    th.join()
  return results
