"""E3 back end: bounded model checking of thread schedules with z3 (QF_BV).

Input: per-thread step lists from vf.py2smt. State = shared heap (weak-key cache,
bucket dicts, factories, lists, a namespace attribute, one re-entrant lock,
transform counters) + per-thread pc / status / registers. A schedule is a vector
of S symbolic thread ids (S = total number of shared-state steps of all threads,
complete for loop-free code); a chosen thread must be enabled. Thread-local
instructions are merged into the preceding shared step.

The same transition function is written once over a small value algebra and is
instantiated (a) with z3 bit-vectors for the BMC and (b) with Python ints for
the concrete interpreter used to validate the translation against the real
code, to replay counterexample schedules and to count reachable states.
"""
import time

import z3

W = 6   # bit width of every value (object ids, keys, flags, pcs fit in 6 bits; pcs use PCW)
PCW = 8


class Sym(object):
  """z3 algebra."""
  name = 'z3'

  def const(self, v, w=W):
    return z3.BitVecVal(v, w)

  def ite(self, c, a, b):
    return z3.If(c, a, b)

  def eq(self, a, b):
    return a == b

  def and_(self, *cs):
    return z3.And(*cs) if cs else z3.BoolVal(True)

  def or_(self, *cs):
    return z3.Or(*cs) if cs else z3.BoolVal(False)

  def not_(self, c):
    return z3.Not(c)

  def true(self):
    return z3.BoolVal(True)

  def false(self):
    return z3.BoolVal(False)

  def nz(self, a):
    return a != 0

  def b2v(self, c):
    return z3.If(c, z3.BitVecVal(1, W), z3.BitVecVal(0, W))

  def add1(self, a):
    return a + 1

  def sub1(self, a):
    return a - 1

  def is_false(self, c):
    return z3.is_false(z3.simplify(c))


class Conc(object):
  """Concrete algebra (Python ints / bools)."""
  name = 'concrete'

  def const(self, v, w=W):
    return v

  def ite(self, c, a, b):
    return a if c else b

  def eq(self, a, b):
    return a == b

  def and_(self, *cs):
    return all(cs)

  def or_(self, *cs):
    return any(cs)

  def not_(self, c):
    return not c

  def true(self):
    return True

  def false(self):
    return False

  def nz(self, a):
    return a != 0

  def b2v(self, c):
    return 1 if c else 0

  def add1(self, a):
    return a + 1

  def sub1(self, a):
    return a - 1

  def is_false(self, c):
    return not c


class Model(object):
  """Static description: thread programs + object universe."""

  def __init__(self, programs, inits, keys=(1, 2), subs=(1, 2), ns_thread_local=True, max_list=4,
               protect=(), extra_lists=(), init_heap=None):
    """programs: list of IR code (one per thread); inits: list of {reg: value or ('sym', name)}."""
    self.programs = programs
    self.inits = inits
    self.T = len(programs)
    self.keys = list(keys)
    self.subs = list(subs)
    self.ns_thread_local = ns_thread_local
    self.max_list = max_list
    # static allocation: every new_* site of every thread gets its own id
    self.alloc = {}
    nxt = 8
    self.dict_ids, self.list_ids, self.factory_ids, self.ctx_ids = [], [], [], []
    for t, code in enumerate(programs):
      for pc, ins in enumerate(code):
        if ins[0] == 'prim' and ins[2].startswith('new_'):
          self.alloc[(t, pc)] = nxt
          kind = ins[2]
          if kind == 'new_dict':
            self.dict_ids.append(nxt)
          elif kind == 'new_list1':
            self.list_ids.append(nxt)
          elif kind == 'new__PythonFnFactory':
            self.factory_ids.append(nxt)
          else:
            self.ctx_ids.append(nxt)
          nxt += 1
    assert nxt < 2 ** W, 'too many allocation sites for the bit width'
    self.list_ids = list(extra_lists) + self.list_ids
    self.init_heap = dict(init_heap or {})
    self.stops = []
    for t, code in enumerate(programs):
      self.stops.append([pc for pc, ins in enumerate(code) if ins[0] == 'prim'])
    # Only registers that are live at some shared step (or observed by the property) are
    # state variables; all others are temporaries inside one merged step.
    self.regs = []
    for t, code in enumerate(programs):
      keep = set(inits[t].keys()) | set(protect)
      live = self._live_at_stops(code)
      self.regs.append(sorted(keep | live))
  @staticmethod
  def _uses_defs(ins):
    op = ins[0]
    rd = lambda o: [] if (isinstance(o, tuple) and o[0] == 'const') else [o]
    if op == 'prim':
      u = []
      for a in ins[3]:
        u += rd(a)
      return u, ([ins[1]] if ins[1] else [])
    if op == 'mov':
      return rd(ins[2]), [ins[1]]
    if op == 'const':
      return [], [ins[1]]
    if op == 'not':
      return rd(ins[2]), [ins[1]]
    if op == 'is':
      return rd(ins[2]) + rd(ins[3]), [ins[1]]
    if op in ('jmpf', 'assert'):
      return rd(ins[1]), []
    return [], []

  def _live_at_stops(self, code):
    n = len(code)
    succ = []
    for pc, ins in enumerate(code):
      if ins[0] == 'jmp':
        succ.append([ins[1]])
      elif ins[0] == 'jmpf':
        succ.append([pc + 1, ins[2]])
      elif ins[0] == 'fail':
        succ.append([])
      else:
        succ.append([pc + 1])
    live_in = [set() for _ in range(n + 1)]
    changed = True
    while changed:
      changed = False
      for pc in range(n - 1, -1, -1):
        u, d = self._uses_defs(code[pc])
        out = set()
        for q in succ[pc]:
          if q <= n:
            out |= live_in[min(q, n)]
        new = set(u) | (out - set(d))
        if new != live_in[pc]:
          live_in[pc] = new
          changed = True
    res = set()
    for pc, ins in enumerate(code):
      if ins[0] == 'prim':
        res |= live_in[pc]
    return res

  def max_path_stops(self, t):
    """Largest number of shared steps on any path of thread t (the code is loop free)."""
    code = self.programs[t]
    n = len(code)
    best = [0] * (n + 1)
    for pc in range(n - 1, -1, -1):
      ins = code[pc]
      if ins[0] == 'jmp':
        nxt = [ins[1]]
      elif ins[0] == 'jmpf':
        nxt = [pc + 1, ins[2]]
      elif ins[0] == 'fail':
        nxt = []
      else:
        nxt = [pc + 1]
      for q in nxt:
        if q <= pc:
          raise ValueError('backward jump: the extracted code is not loop free')
      b = max([best[min(q, n)] for q in nxt] or [0])
      best[pc] = b + (1 if ins[0] == 'prim' else 0)
    return best[0]

  def nslots(self):
    return ['shared'] if not self.ns_thread_local else list(range(self.T))

  def var_names(self):
    v = []
    for k in self.keys:
      v.append('wk.%d' % k)
      for s in self.subs:
        v.append('tc.%d.%d' % (k, s))
    for d in self.dict_ids:
      for s in self.subs:
        v.append('d.%d.%d' % (d, s))
    for f in self.factory_ids:
      v.append('fc.%d' % f)
    for l in self.list_ids:
      v.append('ll.%d' % l)
      for i in range(self.max_list):
        v.append('ls.%d.%d' % (l, i))
    for n in self.nslots():
      v.append('ns.p.%s' % n)
      v.append('ns.v.%s' % n)
    v += ['lock.owner', 'lock.depth']
    for t in range(self.T):
      v += ['pc.%d' % t, 'st.%d' % t, 'err.%d' % t]
      v += ['r.%d.%s' % (t, r) for r in self.regs[t]]
    return v

  def width(self, name):
    return PCW if name.startswith('pc.') else W

  # ---------------------------------------------------------------------------
  def initial(self, A, sym_inputs=None):
    s = {}
    for n in self.var_names():
      s[n] = A.const(0, self.width(n))
    for t in range(self.T):
      for r, v in self.inits[t].items():
        if isinstance(v, tuple) and v[0] == 'sym':
          s['r.%d.%s' % (t, r)] = sym_inputs[v[1]]
        else:
          s['r.%d.%s' % (t, r)] = A.const(v)
    for k, v in self.init_heap.items():
      s[k] = A.const(v, self.width(k))
    # run the thread-local prefix of every thread
    for t in range(self.T):
      s = self._continue(A, s, t, 0, A.true())
    return s

  def _val(self, A, s, t, opnd):
    if isinstance(opnd, tuple) and opnd[0] == 'const':
      return A.const(opnd[1])
    return s.get('r.%d.%s' % (t, opnd), A.const(0))

  def _continue(self, A, s, t, pc, cond, upd0=None):
    """Executes thread-local instructions from pc under `cond`; returns the merged state."""
    code = self.programs[t]
    outcomes = []      # (cond, updates dict)

    def go(pc, cond, upd):
      while True:
        if A.is_false(cond):
          return
        if pc >= len(code):
          u = dict(upd)
          u['pc.%d' % t] = A.const(len(code), PCW)
          u['st.%d' % t] = A.const(1)
          outcomes.append((cond, u))
          return
        ins = code[pc]
        op = ins[0]

        def rd(o):
          if isinstance(o, tuple) and o[0] == 'const':
            return A.const(o[1])
          k = 'r.%d.%s' % (t, o)
          if k in upd:
            return upd[k]
          if k in s:
            return s[k]
          return A.const(0)       # a temporary that is never read before being written

        if op == 'prim':
          u = dict(upd)
          u['pc.%d' % t] = A.const(pc, PCW)
          outcomes.append((cond, u))
          return
        if op == 'mov':
          upd = dict(upd)
          upd['r.%d.%s' % (t, ins[1])] = rd(ins[2])
        elif op == 'const':
          upd = dict(upd)
          upd['r.%d.%s' % (t, ins[1])] = A.const(ins[2])
        elif op == 'not':
          upd = dict(upd)
          upd['r.%d.%s' % (t, ins[1])] = A.b2v(A.not_(A.nz(rd(ins[2]))))
        elif op == 'is':
          upd = dict(upd)
          upd['r.%d.%s' % (t, ins[1])] = A.b2v(A.eq(rd(ins[2]), rd(ins[3])))
        elif op == 'jmp':
          pc = ins[1]
          continue
        elif op == 'jmpf':
          c = A.nz(rd(ins[1]))
          go(ins[2], A.and_(cond, A.not_(c)), upd)
          cond = A.and_(cond, c)
        elif op == 'assert':
          c = A.nz(rd(ins[1]))
          u = dict(upd)
          u['st.%d' % t] = A.const(2)
          u['err.%d' % t] = A.const(min(63, ins[3] % 64))
          u['pc.%d' % t] = A.const(pc, PCW)
          outcomes.append((A.and_(cond, A.not_(c)), u))
          cond = A.and_(cond, c)
        elif op == 'fail':
          u = dict(upd)
          u['st.%d' % t] = A.const(2)
          u['err.%d' % t] = A.const(1)
          u['pc.%d' % t] = A.const(pc, PCW)
          outcomes.append((cond, u))
          return
        else:
          raise ValueError('unknown instruction %r' % (ins,))
        pc += 1

    go(pc, cond, dict(upd0 or {}))
    out = dict(s)
    keys = set()
    for _, u in outcomes:
      keys.update(k for k in u if k in s)
    for k in keys:
      v = s[k]
      for c, u in outcomes:
        if k in u:
          v = A.ite(c, u[k], v)
      out[k] = v
    return out

  def enabled(self, A, s, t):
    """Thread t can take its next shared step."""
    running = A.eq(s['st.%d' % t], A.const(0))
    code = self.programs[t]
    blocked = A.false()
    for pc in self.stops[t]:
      ins = code[pc]
      if ins[2] == 'lock_acquire':
        held_by_other = A.and_(A.nz(s['lock.owner']), A.not_(A.eq(s['lock.owner'], A.const(t + 1))))
        blocked = A.or_(blocked, A.and_(A.eq(s['pc.%d' % t], A.const(pc, PCW)), held_by_other))
    return A.and_(running, A.not_(blocked))

  def step(self, A, s, t):
    """One shared step of thread t (then its thread-local continuation). Returns the new state
    as if t was chosen and enabled."""
    code = self.programs[t]
    result = dict(s)
    parts = []
    for pc in self.stops[t]:
      at = A.eq(s['pc.%d' % t], A.const(pc, PCW))
      if A.is_false(at):
        continue
      ns = self._prim(A, s, t, pc)
      parts.append((at, ns))
    for k in s:
      v = s[k]
      for at, ns in parts:
        if ns[k] is not s[k]:
          v = A.ite(at, ns[k], v)
      result[k] = v
    return result

  def _prim(self, A, s, t, pc):
    ins = self.programs[t][pc]
    _, dst, op, args, lineno = ins
    vals = [self._val(A, s, t, a) for a in args]
    n = dict(s)
    res = A.const(0)
    err = A.false()
    errcode = 2
    nsk = ('shared' if not self.ns_thread_local else t)

    def sel(prefix, idv, ids, sub=None, subs=None):
      """Read a heap cell addressed by dynamic id(s)."""
      out = A.const(0)
      for i in ids:
        if subs is None:
          out = A.ite(A.eq(idv, A.const(i)), s['%s.%d' % (prefix, i)], out)
        else:
          for q in subs:
            out = A.ite(A.and_(A.eq(idv, A.const(i)), A.eq(sub, A.const(q))), s['%s.%d.%d' % (prefix, i, q)], out)
      return out

    if op == 'wk_get':
      res = sel('wk', vals[0], self.keys)
    elif op == 'wk_set':
      for k in self.keys:
        n['wk.%d' % k] = A.ite(A.eq(vals[0], A.const(k)), vals[1], s['wk.%d' % k])
    elif op == 'new_dict' or op.startswith('new_'):
      res = A.const(self.alloc[(t, pc)])
      if op == 'new_list1':
        l = self.alloc[(t, pc)]
        n['ll.%d' % l] = A.const(1)
        n['ls.%d.0' % l] = vals[0]
    elif op == 'dict_contains':
      res = A.b2v(A.nz(sel('d', vals[0], self.dict_ids, vals[1], self.subs)))
    elif op == 'dict_get':
      res = sel('d', vals[0], self.dict_ids, vals[1], self.subs)
    elif op == 'dict_load':
      res = sel('d', vals[0], self.dict_ids, vals[1], self.subs)
      err = A.not_(A.nz(res))        # KeyError
      errcode = 3
    elif op == 'dict_set':
      for d in self.dict_ids:
        for q in self.subs:
          n['d.%d.%d' % (d, q)] = A.ite(A.and_(A.eq(vals[0], A.const(d)), A.eq(vals[1], A.const(q))),
                                        vals[2], s['d.%d.%d' % (d, q)])
    elif op == 'transform':
      for k in self.keys:
        for q in self.subs:
          hit = A.and_(A.eq(vals[0], A.const(k)), A.eq(vals[1], A.const(q)))
          n['tc.%d.%d' % (k, q)] = A.ite(hit, A.add1(s['tc.%d.%d' % (k, q)]), s['tc.%d.%d' % (k, q)])
    elif op == 'factory_create':
      for f in self.factory_ids:
        n['fc.%d' % f] = A.ite(A.eq(vals[0], A.const(f)), A.const(1), s['fc.%d' % f])
    elif op == 'factory_instantiate':
      created = sel('fc', vals[0], self.factory_ids)
      err = A.not_(A.nz(created))     # ValueError('call create first')
      errcode = 4
      res = vals[0]
    elif op == 'lock_acquire':
      n['lock.owner'] = A.const(t + 1)
      n['lock.depth'] = A.add1(s['lock.depth'])
    elif op == 'lock_release':
      n['lock.depth'] = A.sub1(s['lock.depth'])
      n['lock.owner'] = A.ite(A.eq(s['lock.depth'], A.const(1)), A.const(0), s['lock.owner'])
    elif op == 'ns_hasattr':
      res = s['ns.p.%s' % nsk]
    elif op == 'ns_getattr':
      res = s['ns.v.%s' % nsk]
      err = A.not_(A.nz(s['ns.p.%s' % nsk]))      # AttributeError
      errcode = 5
    elif op == 'ns_setattr':
      n['ns.p.%s' % nsk] = A.const(1)
      n['ns.v.%s' % nsk] = vals[0]
    elif op == 'list_append':
      for l in self.list_ids:
        isl = A.eq(vals[0], A.const(l))
        ln = s['ll.%d' % l]
        for i in range(self.max_list):
          n['ls.%d.%d' % (l, i)] = A.ite(A.and_(isl, A.eq(ln, A.const(i))), vals[1], s['ls.%d.%d' % (l, i)])
        n['ll.%d' % l] = A.ite(isl, A.add1(ln), ln)
        err = A.or_(err, A.and_(isl, A.eq(ln, A.const(self.max_list))))
      errcode = 6
    elif op == 'list_pop':
      for l in self.list_ids:
        isl = A.eq(vals[0], A.const(l))
        ln = s['ll.%d' % l]
        n['ll.%d' % l] = A.ite(isl, A.sub1(ln), ln)
        err = A.or_(err, A.and_(isl, A.eq(ln, A.const(0))))
      errcode = 7
    elif op == 'list_remove':
      # list.remove(x): delete the FIRST occurrence, shift the tail, ValueError if absent
      for l in self.list_ids:
        isl = A.eq(vals[0], A.const(l))
        ln = s['ll.%d' % l]
        slots = [s['ls.%d.%d' % (l, i)] for i in range(self.max_list)]
        found_before = A.false()
        newslots = []
        for i in range(self.max_list):
          here = A.and_(A.not_(found_before), A.eq(slots[i], vals[1]), A.not_(A.eq(ln, A.const(i))))
          # position i is valid only if i < len: encode with the chain of "len == k" tests
          valid = A.or_(*[A.eq(ln, A.const(k)) for k in range(i + 1, self.max_list + 1)])
          here = A.and_(here, valid)
          found_before = A.or_(found_before, here)
          nxt = slots[i + 1] if i + 1 < self.max_list else A.const(0)
          newslots.append(A.ite(found_before, nxt, slots[i]))
        for i in range(self.max_list):
          n['ls.%d.%d' % (l, i)] = A.ite(isl, newslots[i], slots[i])
        n['ll.%d' % l] = A.ite(A.and_(isl, found_before), A.sub1(ln), ln)
        err = A.or_(err, A.and_(isl, A.not_(found_before)))
      errcode = 9
    elif op == 'list_top':
      for l in self.list_ids:
        isl = A.eq(vals[0], A.const(l))
        ln = s['ll.%d' % l]
        for i in range(self.max_list):
          res = A.ite(A.and_(isl, A.eq(ln, A.const(i + 1))), s['ls.%d.%d' % (l, i)], res)
        err = A.or_(err, A.and_(isl, A.eq(ln, A.const(0))))
      errcode = 8
    else:
      raise ValueError('unknown primitive %r' % op)
    upd0 = {}
    if dst:
      upd0['r.%d.%s' % (t, dst)] = res
      if 'r.%d.%s' % (t, dst) in n:
        n['r.%d.%s' % (t, dst)] = res
    ok = self._continue(A, n, t, pc + 1, A.true(), upd0)
    bad = dict(s)
    bad['st.%d' % t] = A.const(2)
    bad['err.%d' % t] = A.const(errcode)
    out = {}
    for k in s:
      if A.is_false(err):
        out[k] = ok[k]
      else:
        out[k] = A.ite(err, bad[k], ok[k])
    return out

  def total_steps(self):
    return sum(self.max_path_stops(t) for t in range(self.T))


# ---------------------------------------------------------------------------
# z3 BMC
# ---------------------------------------------------------------------------

def bmc(model, violation, sym_inputs=None, input_constraints=(), steps=None, timeout_s=600):
  """Returns dict(result='unsat'|'sat'|'unknown', schedule=[...], inputs={...}, time=..).

  violation(A, state) -> boolean term that is true in a bad final state.
  Also checks the unwinding assertion (all threads finished after S steps)."""
  A = Sym()
  S = steps or model.total_steps()
  t0 = time.time()
  syms = {}
  for name in (sym_inputs or []):
    syms[name] = z3.BitVec('in_%s' % name, W)
  sol = z3.SolverFor('QF_BV')
  sol.set('timeout', int(timeout_s * 1000))
  for c in input_constraints:
    sol.add(c(syms))
  names = model.var_names()
  cur = model.initial(A, syms)
  sched = []
  for k in range(S):
    sk = z3.BitVec('sched_%d' % k, 3)
    sched.append(sk)
    # fresh state variables for this step
    nxt_vars = dict((n, z3.BitVec('%s@%d' % (n, k + 1), model.width(n))) for n in names)
    any_enabled = A.or_(*[model.enabled(A, cur, t) for t in range(model.T)])
    sol.add(z3.ULT(sk, model.T))
    chosen_ok = A.or_(*[A.and_(sk == t, model.enabled(A, cur, t)) for t in range(model.T)])
    sol.add(z3.Implies(any_enabled, chosen_ok))
    succ = [model.step(A, cur, t) for t in range(model.T)]
    for n in names:
      v = cur[n]
      for t in range(model.T):
        if succ[t][n] is not cur[n]:
          v = z3.If(z3.And(sk == t, any_enabled), succ[t][n], v)
      sol.add(nxt_vars[n] == v)
    cur = nxt_vars
  final = cur
  all_done = A.and_(*[z3.Or(final['st.%d' % t] == 1, final['st.%d' % t] == 2) for t in range(model.T)])
  out = {'steps': S, 'threads': model.T, 'vars': len(names)}
  # (1) unwinding assertion: some schedule leaves a thread unfinished?  must be unsat
  sol.push()
  sol.add(z3.Not(all_done))
  r = sol.check()
  out['unwinding'] = str(r)
  sol.pop()
  # (2) reachability twin: some complete error-free schedule exists? must be sat
  sol.push()
  sol.add(A.and_(*[final['st.%d' % t] == 1 for t in range(model.T)]))
  r = sol.check()
  out['reach_twin'] = str(r)
  sol.pop()
  # (3) the property
  sol.push()
  sol.add(violation(A, final))
  r = sol.check()
  out['result'] = str(r)
  if r == z3.sat:
    m = sol.model()
    out['schedule'] = [m.eval(s, model_completion=True).as_long() for s in sched]
    out['inputs'] = dict((k, m.eval(v, model_completion=True).as_long()) for k, v in syms.items())
  sol.pop()
  out['time'] = round(time.time() - t0, 2)
  out['smt2_assertions'] = len(sol.assertions())
  return out


# ---------------------------------------------------------------------------
# concrete interpretation: schedules, state counting
# ---------------------------------------------------------------------------

def run_schedule(model, schedule, inputs=None):
  """Executes a schedule concretely; returns (final state, trace of (thread, pc, lineno, op))."""
  A = Conc()
  s = model.initial(A, inputs or {})
  trace = []
  for t in schedule:
    if not any(model.enabled(A, s, u) for u in range(model.T)):
      break
    if t >= model.T or not model.enabled(A, s, t):
      continue
    pc = s['pc.%d' % t]
    ins = model.programs[t][pc]
    trace.append((t, pc, ins[4], ins[2]))
    s = model.step(A, s, t)
  return s, trace


def explore(model, inputs, violation=None, limit=400000):
  """Explicit-state exploration of all schedules (concrete): counts distinct states and
  transitions; used to cross-check the z3 verdict and for the evidence counts."""
  A = Conc()
  init = model.initial(A, inputs)
  names = model.var_names()
  key = lambda s: tuple(s[n] for n in names)
  seen = {key(init): init}
  depth = {key(init): 0}
  frontier = [init]
  transitions = 0
  bad = 0
  maxdepth = 0
  while frontier:
    s = frontier.pop()
    moved = False
    for t in range(model.T):
      if model.enabled(A, s, t):
        moved = True
        n = model.step(A, s, t)
        transitions += 1
        k = key(n)
        dn = depth[key(s)] + 1
        if k not in seen or dn > depth[k]:
          # (re)visit when reached by a longer schedule: the longest schedule bounds the BMC
          new = k not in seen
          seen[k] = n
          depth[k] = dn
          maxdepth = max(maxdepth, dn)
          frontier.append(n)
          if not new:
            continue
          if len(seen) > limit:
            return {'states': len(seen), 'transitions': transitions, 'bad_final_states': bad, 'truncated': True}
    if not moved and violation is not None and violation(A, s):
      bad += 1
  return {'states': len(seen), 'transitions': transitions, 'bad_final_states': bad, 'truncated': False,
          'longest_schedule': maxdepth}
