"""Runs E2 obligations (program x K) for one property and accounts verdicts."""
import os

from vf import common, e2progs, pool


def run_property(pid, tier, encoded, classify, level='exploration', K=None, extra_assumptions=(),
                 outside=''):
  R = common.Run(pid, tier, level, encoded)
  known_patterns = [k['pattern'] for k in R.known]
  K = K or (8 if tier == 'quick' else 12)
  progs = e2progs.programs(tier, R.seed)
  pct = 25.0 if tier == 'quick' else 120.0
  tasks = [('vf.e2', 'work', {'prog': p.as_dict(), 'props': [pid], 'K': K, 'tmpdir': R.tmpdir,
                              'per_condition_timeout': pct, 'per_path_timeout': 10.0,
                              'classifier': '%s:classify' % classify.__module__,
                              'known_patterns': known_patterns}) for p in progs]

  def progress(k, n, r):
    if k % 50 == 0 or k == n:
      R.log('%d/%d obligations' % (k, n))

  results = pool.run_tasks(tasks, hard_timeout=int(pct * 2 + 60),
                           stderr_path=os.path.join(R.tmpdir, 'workers.err'), progress=progress)
  side_bad = 0
  reached = 0
  for p, r in zip(progs, results):
    r.setdefault('name', p.name)
    R.count(r)
    reached = max(reached, r.get('reached_k', 0) or 0)
    if r.get('verdict') == 'confirmed':
      R.sample({'program': p.name, 'source': p.src, 'K': K, 'verdict': 'confirmed',
                'solver_s': r.get('solver_s')})
    for b in (r.get('side') or {}).get(pid, []):
      side_bad += 1
      tags = set(classify(p, {'kind': 'side', 'text': b}))
      R.violation('%s concrete side condition fails on %s: %s' % (pid, p.name, b),
                  {'engine': 'e2', 'program': p.src, 'props': [pid], 'decisions': [], 'side_only': True,
                   'detail': b}, tags)
    for (_, dec, how, one) in (r.get('tolerated') or [])[:8]:
      R.violation('%s violated on %s: decisions=%r %r' % (pid, p.name, dec, one),
                  {'engine': 'e2', 'program': p.src, 'props': [pid], 'decisions': dec, 'how': how,
                   'fail': one}, set(classify(p, one)))
    if r.get('verdict') == 'refuted':
      f = (r.get('fails') or {}).get(pid) or {}
      for one in f.get('fails', [{}])[:1]:
        tags = set(classify(p, one))
        R.violation('%s violated on %s: decisions=%r %r' % (pid, p.name, f.get('decisions'), one),
                    {'engine': 'e2', 'program': p.src, 'props': [pid], 'decisions': f.get('decisions', []),
                     'how': f.get('how'), 'fail': one}, tags)
  cov = {
      'evaluations': len(progs),
      'distinct_nontrivial': R.counts['confirmed'] + R.counts['refuted'],
      'rule': 'one obligation per enumerated program (bounded-exhaustive skeleton chains depth<=%d + seeded random '
              'tail + %d hand-written shapes); for each, z3/CrossHair enumerates every branch-decision vector of '
              'length <= K=%d and CPython executes the instrumented program on it; non-trivial = conclusive verdict'
              % (2 if tier == 'quick' else 3, len(e2progs.EXTRA), K),
      'K': K,
      'max_decisions_consumed': reached,
      'side_condition_failures': side_bad,
      'outside_bounds': 'executions needing more than K decisions; implicit exceptions; exceptional propagation '
                        'through finally; ' + outside,
  }
  return R.finish(cov, assumptions=[
      'CPython executing the instrumented copy is the oracle for statement order, bindings and last writers',
      'program conditions are replaced by opaque decisions: every decision sequence is considered executable',
      'instrumentation (vf/e2.py) preserves control flow: probes are inserted before statements, tests are replaced '
      'by decision calls, finally-entry is classified by an enclosing except BaseException: mark; raise',
  ] + list(extra_assumptions))
