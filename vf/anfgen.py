"""Programs for C18 (ANF): tracer calls in every operand position.

'flat' family: every effectful operand is a direct call `t(k, atom)` (leaf
arguments) and store targets are effect-free, so that the two listed evaluation
order findings (later sibling nested deeper than an earlier effectful sibling;
effectful sub-expression of a store target) cannot apply; checked strictly.
"""
import random

from vf import gen


class G(object):

  def __init__(self, seed, lazy=False):
    self.r = random.Random(seed)
    self.k = 0
    self.lazy = lazy

  def T(self, atom=None):
    self.k += 1
    return 't(%d, %s)' % (self.k, atom or self.atom())

  def atom(self):
    return self.r.choice(['a', 'c', 'x', 'n', '1', '2', '3'])

  def opnd(self):
    return self.T() if self.r.random() < 0.7 else self.atom()

  def expr(self):
    r = self.r.random()
    if r < 0.2:
      return '%s %s %s' % (self.opnd(), self.r.choice(['+', '-', '*']), self.opnd())
    if r < 0.3:
      return '-%s' % self.atom() if self.r.random() < 0.5 else self.T()
    if r < 0.42:
      return 'hp(%s, %s)' % (self.opnd(), self.opnd())
    if r < 0.5:
      return 'hp(%s, q=%s)' % (self.opnd(), self.opnd())
    if r < 0.56:
      return 'hp(*[%s, %s])' % (self.opnd(), self.opnd())
    if r < 0.62:
      return '(%s, %s)' % (self.opnd(), self.opnd())
    if r < 0.68:
      return '[%s, %s, %s]' % (self.opnd(), self.opnd(), self.atom())
    if r < 0.73:
      return "{'k': %s, 'j': %s}" % (self.opnd(), self.opnd())
    if r < 0.79:
      return 'l[%s]' % self.T('0')
    if r < 0.84:
      return 'xs3[%s:%s]' % (self.T('0'), self.T('2'))
    if r < 0.88:
      return 'o.bump(%s)' % self.opnd()
    if r < 0.905:
      form = self.r.choice(["{{**{{'k': {0}}}, 'j': {1}}}", "{{'j': {0}, **{{'k': {1}}}}}", "{{**{{'k': {0}}}, **{{'j': {1}}}}}",
                            "dict(**{{'k': {0}}}, j={1})", "{{{0}, {1}}}", "[*[{0}], {1}]", "({0}, *({1},))",
                            "{{'k': [{0}, {{'j': {1}}}]}}"])
      return form.format(self.T(), self.T())
    if r < 0.92:
      return '%s < %s' % (self.opnd(), self.opnd())
    if r < 0.95 and self.lazy:
      form = self.r.choice(['{0} and {1}', '{0} if {1} else 0', '[q for q in ({0}, {1})]', '{0} < {1} < 9',
                            # effect two levels below the lazy construct (argument of an operand call)
                            'b and hp({0}, {1})', 'b or hp({0})', 'hp({0}) if b else hp({1})',
                            '(x > 1) and (hp({0}) > 0)', 'not b or hp(hp({0}), 1)'])
      return form.format(self.T(), self.T())
    return self.T()

  def stmt(self, depth=0):
    r = self.r.random()
    if depth >= 2 or r < 0.45:
      tgt = self.r.choice(['a', 'c', 'a', 'c', 'o.v', "d['k']", 'l[0]', 'a, c'])
      e = self.expr()
      if tgt == 'a, c':
        return ['a, c = %s, %s' % (self.opnd(), self.opnd())]
      if tgt in ('a', 'c') and self.r.random() < 0.2:
        return ['%s += %s' % (tgt, e)]
      if tgt in ('o.v', "d['k']", 'l[0]'):
        return ['%s = %s' % (tgt, self.opnd())]
      return ['%s = %s' % (tgt, e)]
    if r < 0.6:
      out = ['if %s > %s:' % (self.opnd(), self.atom())] + gen.ind(self.block(depth + 1))
      if self.r.random() < 0.5:
        out += ['else:'] + gen.ind(self.block(depth + 1))
      return out
    if r < 0.72:
      out = ['for i%d in range(%s):' % (depth, self.T('n'))] + gen.ind(self.block(depth + 1))
      if self.r.random() < 0.4:
        out += ['else:'] + gen.ind(self.block(depth + 1))
      return out
    if r < 0.8:
      return ['with CM(%s):' % self.T('1')] + gen.ind(self.block(depth + 1))
    if r < 0.88:
      return (['try:'] + gen.ind(self.block(depth + 1) + ['if %s > 1:' % self.T('x'), '  raise UErr(%s)' % self.T()]) +
              ['except UErr:'] + gen.ind(self.block(depth + 1)) +
              (['else:'] + gen.ind(self.block(depth + 1)) if self.r.random() < 0.3 else []) +
              (['finally:'] + gen.ind(self.block(depth + 1)) if self.r.random() < 0.3 else []))
    if r < 0.94:
      return ['hp(%s, %s)' % (self.opnd(), self.opnd())]
    if r < 0.97 and self.lazy:
      return (['w%d = 0' % depth, 'while w%d < n:' % depth] + gen.ind(['w%d = w%d + 1' % (depth, depth)] + self.block(depth + 1)) +
              (['else:'] + gen.ind(self.block(depth + 1)) if self.r.random() < 0.5 else []))
    return ['if %s > 3:' % self.T('x'), '  return (%s, %s)' % (self.opnd(), self.opnd())]

  def block(self, depth):
    out = []
    for _ in range(self.r.randint(1, 3)):
      out.extend(self.stmt(depth))
    return out

  def program(self, name):
    body = ['a = 0', 'c = 1', 'o = O()', "d = {'k': 0}", 'l = [5, 6]', 'xs3 = [7, 8, 9]']
    for _ in range(self.r.randint(2, 5)):
      body.extend(self.stmt(0))
    body.append("return (a, c, o.v, d['k'], l)")
    src = HP + '\n'.join(['def f(x, n, b, xs):'] + gen.ind(body)) + '\n'
    return gen.Prog(name, src, {'anf'} | ({'lazy'} if self.lazy else set()))


HP = '''def hp(p, q=0):
  t(800, p)
  return p - q

'''


def programs(count, seed, lazy=False, prefix='anf'):
  return [G(seed * 7001 + i, lazy).program('%s:%d:%d' % (prefix, seed, i)) for i in range(count)]
