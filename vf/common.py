"""Shared run bookkeeping: verdict accounting, known findings, replays, evidence."""
import atexit
import hashlib
import json
import os
import shutil
import subprocess
import sys
import tempfile
import time

ROOT = os.path.dirname(os.path.dirname(os.path.abspath(__file__)))
REPO = os.environ.get('VF_REPO', '/repo')
KNOWN_PATH = os.path.join(ROOT, 'known_findings.json')

EXIT_OK = 0
EXIT_VIOLATION = 1
EXIT_HARNESS = 3


def seed():
  try:
    return int(os.environ.get('VERIF_SEED', '0') or 0)
  except ValueError:
    return 0


def file_sha(relpaths):
  out = {}
  for p in relpaths:
    fp = os.path.join(REPO, p)
    try:
      with open(fp, 'rb') as fh:
        out[p] = hashlib.sha1(fh.read()).hexdigest()[:12]
    except OSError:
      out[p] = 'missing'
  return out


def load_known():
  try:
    with open(KNOWN_PATH) as fh:
      return json.load(fh)
  except OSError:
    return {'findings': [], 'fixed': []}


class Run(object):
  """One execution of one property's check."""

  def __init__(self, pid, tier, level, encoded_files=()):
    self.pid = pid
    self.tier = tier
    self.level = level
    self.t0 = time.time()
    self.seed = seed()
    self.encoded_files = list(encoded_files)
    self.tmpdir = tempfile.mkdtemp(prefix='vf_%s_' % pid)
    atexit.register(shutil.rmtree, self.tmpdir, True)
    self.known = [k for k in load_known().get('findings', []) if k['property'] == pid]
    self.known_seen = {}
    self.violations = []      # new (unlisted) violations
    self.counts = {'confirmed': 0, 'refuted': 0, 'inconclusive': 0, 'error': 0}
    self.solver_s = 0.0
    self.samples = []
    self.notes = []
    self.harness_errors = []   # recorded in evidence; fatal only in bulk
    self.fatal = []            # systemic harness failures -> exit 3
    self.queries = 0
    self.inconclusive = []     # names of obligations the solver did not decide within the budget

  # -- accounting ------------------------------------------------------------
  def count(self, res):
    v = res.get('verdict', 'error')
    self.counts[v] = self.counts.get(v, 0) + 1
    self.solver_s += float(res.get('solver_s', 0.0) or 0.0)
    self.queries += 1
    if v == 'error':
      self.harness_errors.append('%s: %s' % (res.get('name'), str(res.get('detail'))[:600]))
    if v == 'inconclusive':
      self.inconclusive.append('%s (%s)' % (res.get('name'), str(res.get('detail'))[:60].replace('\n', ' ')))

  def sample(self, obj, limit=6):
    if len(self.samples) < limit:
      self.samples.append(obj)

  def log(self, msg):
    print('[%s %s +%ds] %s' % (self.pid, self.tier, time.time() - self.t0, msg), flush=True)

  # -- violations ------------------------------------------------------------
  def violation(self, title, replay, tags=()):
    """Registers a reproduced violation. `replay` is a JSON-able dict.

    If `tags` contains the pattern of a listed known finding it is reported as
    KNOWN-FINDING (once per finding) and does not fail the run.
    """
    tags = set(tags)
    for k in self.known:
      if k['pattern'] in tags:
        if k['pattern'] not in self.known_seen:
          self.known_seen[k['pattern']] = title
        return 'known'
    d = os.path.join(ROOT, 'replays', self.pid)
    os.makedirs(d, exist_ok=True)
    body = dict(replay)
    body['property'] = self.pid
    body['title'] = title
    body['tags'] = sorted(tags)
    key = hashlib.sha1(json.dumps(body, sort_keys=True, default=str).encode()).hexdigest()[:10]
    path = os.path.join(d, '%s_%s.json' % (self.tier, key))
    with open(path, 'w') as fh:
      json.dump(body, fh, indent=1, default=str)
    # fresh-process native replay before anything is printed
    env = dict(os.environ)
    p = subprocess.run([sys.executable, '-m', 'vf', 'replay', path], env=env,
                       stdout=subprocess.PIPE, stderr=subprocess.STDOUT, timeout=600)
    if p.returncode != 1:
      # The obligation was decided in a worker with its own PYTHONHASHSEED (pool.py); behaviour
      # that depends on set iteration order reproduces only under such a seed. Try the worker
      # seeds and pin the one that reproduces in the replay file.
      base = int(os.environ.get('VERIF_SEED', '0') or 0)
      for hs in range(base, base + 16):
        body['hashseed'] = hs
        with open(path, 'w') as fh:
          json.dump(body, fh, indent=1, default=str)
        p = subprocess.run([sys.executable, '-m', 'vf', 'replay', path], env=env,
                           stdout=subprocess.PIPE, stderr=subprocess.STDOUT, timeout=600)
        if p.returncode == 1:
          break
    if p.returncode != 1:
      self.harness_errors.append('replay of %s did not reproduce (exit %d): %s' % (
          path, p.returncode, p.stdout.decode(errors='replace')[-800:]))
      try:
        os.remove(path)
      except OSError:
        pass
      return 'nonrepro'
    self.violations.append((title, path))
    return 'new'

  # -- finish ----------------------------------------------------------------
  def finish(self, coverage, assumptions=(), min_conclusive=0.6, extra=None):
    wall = time.time() - self.t0
    total = sum(self.counts.values())
    conclusive = self.counts['confirmed'] + self.counts['refuted']
    cov = dict(coverage)
    cov.setdefault('samples', self.samples or [{'note': 'no sample recorded'}])
    cov['obligations'] = total
    cov['discharged'] = self.counts['confirmed']
    cov['verdicts'] = dict(self.counts)
    cov['solver_queries'] = self.queries
    cov['inconclusive_obligations'] = self.inconclusive[:200]
    cov['solver_wall_s'] = round(self.solver_s, 2)
    cov['functions_encoded'] = file_sha(self.encoded_files)
    cov['known_findings_observed'] = sorted(self.known_seen)
    if self.notes:
      cov['notes'] = self.notes
    if self.harness_errors:
      cov['harness_errors'] = self.harness_errors[:10]
    ev = {
        'property_id': self.pid,
        'tier': self.tier,
        'seed': self.seed,
        'level': self.level,
        'coverage': cov,
        'assumptions': list(assumptions),
        'wall_s': round(wall, 2),
        'violations': len(self.violations),
    }
    if extra:
      ev.update(extra)
    os.makedirs(os.path.join(ROOT, 'evidence'), exist_ok=True)
    with open(os.path.join(ROOT, 'evidence', '%s.json' % self.pid), 'w') as fh:
      json.dump(ev, fh, indent=1, default=str)
    for k in self.known:
      if k['pattern'] in self.known_seen:
        print('KNOWN-FINDING: property=%s %s [%s at %s]' % (
            self.pid, k['description'], k['pattern'], k.get('call_site', '?')), flush=True)
      else:
        print('NOTE: listed known finding %s was not re-observed by this run' % k['pattern'],
              flush=True)
    for title, path in self.violations:
      print('%s' % title, flush=True)
      print('VIOLATION property=%s replay=%s' % (self.pid, path), flush=True)
    print('[%s %s] obligations=%d confirmed=%d refuted=%d inconclusive=%d error=%d '
          'solver=%.1fs wall=%.1fs' % (self.pid, self.tier, total, self.counts['confirmed'],
                                       self.counts['refuted'], self.counts['inconclusive'],
                                       self.counts['error'], self.solver_s, wall), flush=True)
    if self.violations:
      return EXIT_VIOLATION
    for h in self.harness_errors[:10]:
      print('harness-note: %s' % h.replace('\n', ' | ')[:400], flush=True)
    if self.fatal:
      for h in self.fatal[:10]:
        print('HARNESS-ERROR: %s' % h, flush=True)
      return EXIT_HARNESS
    if total and conclusive < min_conclusive * total:
      print('HARNESS-ERROR: only %d of %d obligations conclusive' % (conclusive, total), flush=True)
      return EXIT_HARNESS
    return EXIT_OK
