"""Program families for the E2 (path) checks: shared by C05, C06, C07, C08."""
import random

from vf import gen

E2_FEATURES = gen.ALL_FEATURES - {'lambda', 'compr', 'partial'}

EXTRA = [
    ('e:loop_else_clauses', '''def f(x, n, b, xs):
  a = 0
  for i in range(n):
    if b:
      break
    a = a + i
  else:
    a = a + 100
  w = 0
  while w < n:
    w = w + 1
    if a > x:
      continue
    a = a + w
  else:
    a = a - 1
  return a
'''),
    ('e:try_else_finally_jumps', '''def f(x, n, b, xs):
  a = 0
  for i in range(n):
    try:
      if b:
        raise UErr(i)
      a = a + 1
    except UErr:
      a = a + 10
      if a > x:
        break
      continue
    else:
      a = a + 100
      if i > x:
        return a
    finally:
      a = a + 1000
    a = a - 1
  return a
'''),
    ('e:nested_finally', '''def f(x, n, b, xs):
  a = 0
  w = 0
  while w < n:
    w = w + 1
    try:
      try:
        if b:
          return a
        a = a + 1
      finally:
        a = a + 10
        c = a
      if a > x:
        break
    finally:
      a = a + 100
    a = a + c
  return a
'''),
    ('e:raise_to_outer_handler', '''def f(x, n, b, xs):
  a = 0
  try:
    for e in xs:
      try:
        if e > x:
          raise UErr2(e)
        a = a + 1
      except UErr:
        a = a + 10
    a = a + 100
  except UErr2:
    a = a + 1000
  return a
'''),
    ('e:with_as_and_del', '''def f(x, n, b, xs):
  a = 0
  with CM(1) as k, CM(2) as m:
    a = k + m
    if b:
      tmp = a
      a = tmp + 1
      del tmp
  c = a
  for i in range(n):
    with CM(3):
      if i > x:
        break
      c = c + i
  return (a, c)
'''),
    ('e:closures_nonlocal', '''def f(x, n, b, xs):
  a = 0
  c = 1
  def inc(k):
    nonlocal a
    a = a + k
    return a
  def peek():
    return a + c
  for i in range(n):
    c = inc(i)
    if c > x:
      c = peek()
  d = peek()
  return (a, c, d)
'''),
    ('e:zero_trip_then_use', '''def f(x, n, b, xs):
  a = 5
  i = -1
  for i in range(n):
    a = i
    q = a + 1
  r = a + i
  w = 0
  while w < n:
    w = w + 1
    a = w
  return (r, a)
'''),
    ('e:loop_target_reassigned', '''def f(x, n, b, xs):
  s = 0
  for i in range(n):
    s = s + i
    i = s * 2
    if i > x:
      i = 0
      continue
    s = s + i
  j = 3
  for j, e in enumerate(xs):
    s = s + j + e
  return (s, j)
'''),
    ('e:class_and_import', '''def f(x, n, b, xs):
  import math
  class K(object):
    z = 3
  a = K.z
  if b:
    from os import path as p2
    a = a + 1
  def g(q):
    r = q + a
    return r
  return g(x) + int(math.floor(1.5))
'''),
    ('e:defaults_and_kwonly', '''def f(x, n, b, xs):
  y = 1
  z = 2
  if b:
    y = x
  def inner(p, q=y, *, k=z, m=y):
    r = p + q + k + m
    return r
  z = 5
  def other(*args, w=z, **kw):
    return len(args) + w
  a = inner(1)
  if n > 1:
    a = inner(2, k=n) + other(1, 2)
  return a
'''),
    ('e:bound_only_on_jump_edge', '''def f(x, n, b, xs):
  for v in xs:
    if v > x:
      found = v
      break
    other = v
    continue
  if b:
    q = 1
  w = 0
  while w < n:
    w = w + 1
    if b:
      hit = w
      break
  if x > 0:
    q = 2
  y = 1
  pass
  if b:
    y = 2
  return y
'''),
    ('e:def_last_in_loop_body', '''def f(x, n, b, xs):
  total = 1
  last = 0
  for v in xs:
    last = v
    def get():
      return total + last
  if b:
    total = 10
  else:
    if x > 1:
      total = 20
      def get():
        return total - last
  c = 0
  if n > 0:
    c = get()
  return c
'''),
    ('e:comprehension_iterable_same_name', '''def f(x, n, b, xs):
  v = [1, 2]
  k = 'a'
  d = {'a': [3]}
  if b:
    v = [x, n]
    k = 'a'
  r = [v * 2 for v in v]
  s = {k: m for k in d[k] for m in (1,)}
  u = sum(e for e in xs if e > x)
  return (r, s, u)
'''),
    ('e:break_in_loop_else_of_nested_loop', '''def f(x, n, b, xs):
  found = 0
  for row in xs:
    w = 0
    while w < n:
      w = w + 1
      if b:
        break
    else:
      if x > 1:
        break
      found = found + 100
      continue
    for q in range(n):
      if q == x:
        break
    else:
      break
    found = found + 1
  return found
'''),
    ('e:underscore_prefixed_names', '''def f(x, n, b, xs):
  a = 1
  a_prev = 0
  n_iter = 0
  while n_iter < n:
    n_iter = n_iter + 1
    if b:
      a_prev = a
    a = a + 1
    n = n - 0
  for a in xs:
    c = a_prev + a
  if x > 0:
    a_prev = a_prev + n_iter
  return (a, a_prev, n_iter)
'''),
    ('e:indirect_closure_late_binding', '''def f(x, n, b, xs):
  def g():
    def inner():
      return late + 1
    return inner()
  late = 0
  i = 0
  while i < n:
    i = i + 1
    late = i * 10
  r = 0
  if b:
    r = g()
  return r
'''),
    ('e:declarations_inside_blocks', '''def f(x, n, b, xs):
  total = 0
  def bump(k):
    if k > x:
      nonlocal total
      total = total + k
    else:
      pass
    return total
  for i in range(n):
    global G
    G = i
  if b:
    global H
    H = 1
  else:
    c = 2
  return bump(n)
'''),
    ('e:class_body_reads', '''def f(x, n, b, xs):
  c = 1
  r = 0
  for i in range(n):
    class K(object):
      val = c + i
      other = x if b else val
      def get(self):
        return self.val + r
    r = K().get()
    c = r + 1
  class Last(K if n else object):
    top = r
  return (r, Last.top)
'''),
    ('e:declarations_at_block_tails', '''def f(x, n, b, xs):
  acc = 0
  i = 0
  while i < n:
    acc = acc + i
    i = i + 1
    note: int
  if b:
    w = 1
    y = 5
    tail: int
  else:
    w = 2
  if x > 0:
    w = w + 1
  for e in xs:
    acc = acc + e
    other: 'str'
  z = w + acc
  return (acc, i, w, z)
'''),
    ('e:maybe_undefined', '''def f(x, n, b, xs):
  if b:
    u = 1
  for i in range(n):
    v = i
  w = 0
  if x > 0:
    w = u + 1
  return w + v
'''),
    ('e:deep_nesting', '''def f(x, n, b, xs):
  a = 0
  for i in range(n):
    for e in xs:
      if e > i:
        try:
          if b:
            raise UErr(e)
          a = a + e
        except UErr:
          a = a - 1
          break
        finally:
          a = a * 2
      elif e == i:
        continue
      else:
        a = a + 1
    if a > x:
      return a
  return -a
'''),
]


def programs(tier, seed, want_extra=True):
  rnd = random.Random(seed)
  sk = gen.skeletons(2)
  d1 = [p for p in sk if p.name.count('>') == 0]
  d2 = [p for p in sk if p.name.count('>') == 1]
  if tier == 'quick':
    progs = d1 + rnd.sample(d2, 60) + gen.random_programs(35, seed + 11, E2_FEATURES)
  else:
    sk3 = [p for p in gen.skeletons(3) if p.name.count('>') == 2]
    progs = sk + rnd.sample(sk3, 150) + gen.random_programs(200, seed + 11, E2_FEATURES)
    progs += gen.random_programs(60, seed + 12, E2_FEATURES, max_depth=4, max_stmts=7)
  if want_extra:
    progs += [gen.Prog(n, s, {'extra'}) for n, s in EXTRA]
    from vf import exotic
    progs += exotic.programs() + [gen.Prog(n, s, {'exotic'}) for n, s in exotic.ANALYSIS_ONLY]
  import os
  if os.environ.get('VF_ONLY'):
    progs = [p for p in progs if p.name.startswith(os.environ['VF_ONLY'])]
  return progs
