"""Run-time support imported by generated E1 harness modules.

Everything here is *environment* for the programs under test: an external
tracer `t` (so evaluation order and call arguments are observable), a plain
attribute holder `O`, a logging context manager `CM`, user exception classes,
and the observation function `obs` used by the differential postcondition.
"""
import copy

LOG = []


def t(k, v=None):
  """External tracer: logs (k, v) and returns v."""
  LOG.append((k, v))
  return v


# The tracer is verification infrastructure, not user code: mark it as an
# autograph artifact so converted_call runs it as-is (cheaply) instead of
# converting it.
t.autograph_info__ = None


class O(object):
  """Plain attribute holder."""

  def __init__(self, v=0, w=0):
    self.v = v
    self.w = w

  def bump(self, k):
    self.v = self.v + k
    return self.v


class CM(object):
  """Context manager that logs enter/exit (and whether an exception passed)."""

  def __init__(self, k, swallow=False):
    self.k = k
    self.swallow = swallow

  def __enter__(self):
    LOG.append(('enter', self.k))
    return self.k

  def __exit__(self, et, ev, tb):
    LOG.append(('exit', self.k, None if et is None else et.__name__))
    return bool(self.swallow and et is not None)


class UErr(Exception):
  """User exception without a constructor of its own."""


class UErr2(Exception):
  pass


def _norm_exc(e):
  if isinstance(e, NameError):
    return 'NameError'
  return type(e).__name__


def _is_nan(v):
  return isinstance(v, float) and v != v


def same_value(a, b, _stack=None):
  """Structural equality, NaN-aware, type-strict for bool vs int. Cyclic containers
  (`a += (a, 1)` on a list) are compared coinductively: a pair that is already being
  compared further up counts as equal."""
  if isinstance(a, (tuple, list, dict)) and isinstance(b, (tuple, list, dict)):
    if _stack is None:
      _stack = set()
    key = (id(a), id(b))
    if key in _stack:
      return True
    _stack.add(key)
    try:
      if isinstance(a, (tuple, list)) and isinstance(b, (tuple, list)):
        if type(a) is not type(b) or len(a) != len(b):
          return False
        for p, q in zip(a, b):
          if not same_value(p, q, _stack):
            return False
        return True
      if isinstance(a, dict) and isinstance(b, dict):
        if len(a) != len(b):
          return False
        for k in a:
          if k not in b or not same_value(a[k], b[k], _stack):
            return False
        return True
      return False
    finally:
      _stack.discard(key)
  if isinstance(a, O) and isinstance(b, O):
    return same_value((a.v, a.w), (b.v, b.w), _stack)
  if _is_nan(a) and _is_nan(b):
    return True
  if isinstance(a, bool) != isinstance(b, bool):
    return False
  return a == b


class Env(object):
  """Module-level mutable environment of a program (globals it may rebind)."""

  def __init__(self, module_dict, names):
    self.d = module_dict
    self.names = names
    self.init = dict((k, copy.deepcopy(module_dict[k])) for k in names)

  def reset(self):
    for k in self.names:
      self.d[k] = copy.deepcopy(self.init[k])

  def snapshot(self):
    return tuple(self.d.get(k, '<deleted>') for k in self.names)


def obs(fn, args, env=None, kwargs=None):
  """Observable behaviour of fn(*args): outcome, tracer log, arg/global post-state."""
  del LOG[:]
  if env is not None:
    env.reset()
  args = tuple(list(a) if isinstance(a, list) else a for a in args)
  try:
    if kwargs:
      r = ('ret', fn(*args, **kwargs))
    else:
      r = ('ret', fn(*args))
  except Exception as e:  # pylint:disable=broad-except
    r = ('exc', _norm_exc(e))
  post = tuple(a for a in args if isinstance(a, list))
  g = env.snapshot() if env is not None else ()
  return (r, list(LOG), post, g)


def same_obs(a, b):
  return same_value(a, b)
