"""Program generators (programs are ENUMERATED, never solved; see DESIGN §0).

Two sources, both deterministic functions of (seed, bounds):

  skeletons(depth)   bounded-exhaustive nestings of control constructs around a
                     guarded jump/assignment leaf, with tracer-bearing trailing
                     statements at every level (so a missing guard or a dropped
                     state variable changes the observable log/result)
  random_programs()  seeded random tail over a richer statement/expression
                     grammar (closures, nonlocal, global, lambdas, and/or/not,
                     conditional expressions, comprehensions, helper callees,
                     tuple assignment, attribute/subscript state, with, try)

Every program is a module-level `def f(x, n, b, xs)` plus optional helpers.
Loops terminate by construction (`for … in range(n)` / bounded counters).
"""
import random

PARAMS = [('x', 'int'), ('n', 'int'), ('b', 'bool'), ('xs', 'List[int]')]


class Prog(object):

  def __init__(self, name, src, tags=(), globs=None, params=None, entry='f'):
    self.name = name
    self.src = src
    self.tags = set(tags)
    self.globs = dict(globs or {})
    self.params = list(params or PARAMS)
    self.entry = entry

  def as_dict(self):
    return {'name': self.name, 'src': self.src, 'tags': sorted(self.tags),
            'globs': self.globs, 'params': self.params, 'entry': self.entry}


def ind(lines, k=1):
  return ['  ' * k + l for l in lines]


# ----------------------------------------------------------------------------
# Bounded-exhaustive skeletons
# ----------------------------------------------------------------------------

CONSTRUCTS = ['if', 'ifelse', 'orelse', 'while', 'for', 'forxs', 'tryfin',
              'tryexc', 'handler', 'tryexcfin', 'handlerfin', 'tryelse', 'trybodyelse', 'with', 'def']
LEAVES = ['assign', 'break', 'continue', 'return', 'raise']
LOOPS = ('while', 'for', 'forxs')


class _Sk(object):

  def __init__(self, pure=False):
    self.k = 0
    self.pure = pure

  def tid(self):
    self.k += 1
    return self.k

  def tr(self, var='a', val=1):
    if self.pure:
      return '%s = %s * 2 + %d' % (var, var, val + self.tid())
    return '%s = %s + t(%d, %d)' % (var, var, self.tid(), val)


def _skeleton_valid(chain, leaf):
  # break/continue need an enclosing loop not separated by a def
  if leaf in ('break', 'continue'):
    seen_loop = False
    for c in reversed(chain):
      if c == 'def':
        break
      if c in LOOPS:
        seen_loop = True
        break
    if not seen_loop:
      return False
  return True


def _cond(level, chain_so_far, loopvar):
  """A data-dependent guard for the given nesting level."""
  if loopvar is not None:
    return ['%s == x' % loopvar, '%s > x' % loopvar, 'a > x + %d' % level][level % 3]
  return ['x > %d' % level, 'b', 'a < x'][level % 3]


def build_skeleton(chain, leaf, variant=0, pure=False, chk=False):
  """Returns source text of f for a construct chain (outermost first) and leaf."""
  sk = _Sk(pure)
  loopvars = []

  def leaf_lines(level, loopvar):
    c = _cond(level + variant, chain, loopvar)
    body = [sk.tr('a', 1)]
    if leaf == 'assign':
      body.append('c = c + a')
    elif leaf == 'break':
      body.append('break')
    elif leaf == 'continue':
      body.append('continue')
    elif leaf == 'return' and pure:
      body.append('return (a, c, %d)' % sk.tid())
    elif leaf == 'return':
      body.append('return (a, t(%d, c))' % sk.tid())
    elif leaf == 'raise':
      body.append('raise UErr(t(%d, a))' % sk.tid())
    return ['if %s:' % c] + ind(body) + [sk.tr('c', 2)]

  def wrap(i, loopvar, indef):
    if i == len(chain):
      return leaf_lines(i, loopvar)
    c = chain[i]
    lv = loopvar
    if c == 'if':
      inner = wrap(i + 1, lv, indef)
      return ['if %s:' % _cond(i + variant + 1, chain, lv)] + ind(inner) + [sk.tr('a', 3)]
    if c == 'ifelse':
      inner = wrap(i + 1, lv, indef)
      return (['if %s:' % _cond(i + variant + 1, chain, lv)] + ind(inner) +
              ['else:'] + ind([sk.tr('c', 4)]) + [sk.tr('a', 3)])
    if c == 'orelse':
      inner = wrap(i + 1, lv, indef)
      return (['if %s:' % _cond(i + variant + 1, chain, lv)] + ind([sk.tr('c', 4)]) +
              ['else:'] + ind(inner) + [sk.tr('a', 3)])
    if c == 'while':
      w = 'w%d' % i
      inner = wrap(i + 1, w, indef)
      return (['%s = 0' % w, 'while %s < n:' % w] +
              ind(['%s = %s + 1' % (w, w)] + inner + [sk.tr('a', 5)]) + [sk.tr('c', 6)])
    if c == 'for':
      v = 'i%d' % i
      inner = wrap(i + 1, v, indef)
      return (['for %s in range(n):' % v] + ind(inner + [sk.tr('a', 5)]) + [sk.tr('c', 6)])
    if c == 'forxs':
      v = 'e%d' % i
      inner = wrap(i + 1, v, indef)
      return (['for %s in xs:' % v] + ind(inner + [sk.tr('a', 5)]) + [sk.tr('c', 6)])
    if c == 'tryfin':
      inner = wrap(i + 1, lv, indef)
      return (['try:'] + ind(inner + [sk.tr('a', 7)]) + ['finally:'] + ind([sk.tr('c', 8)]) +
              [sk.tr('a', 9)])
    if c == 'tryexc':
      inner = wrap(i + 1, lv, indef)
      return (['try:'] + ind(inner + [sk.tr('a', 7)]) + ['except UErr:'] +
              ind([sk.tr('c', 8)]) + [sk.tr('a', 9)])
    if c == 'tryexcfin':
      inner = wrap(i + 1, lv, indef)
      return (['try:'] + ind(inner + [sk.tr('a', 7)]) + ['except UErr:'] +
              ind([sk.tr('c', 8)]) + ['finally:'] + ind([sk.tr('c', 10)]) + [sk.tr('a', 9)])
    if c == 'handler':
      inner = wrap(i + 1, lv, indef)
      g = _cond(i + variant + 2, chain, lv)
      return (['try:'] + ind(['if %s:' % g] + ind(['raise UErr(t(%d, 0))' % sk.tid()]) +
                             [sk.tr('a', 7)]) +
              ['except UErr:'] + ind(inner + [sk.tr('c', 8)]) + [sk.tr('a', 9)])
    if c == 'tryelse':
      # the guarded jump sits in the else clause of a try/except
      inner = wrap(i + 1, lv, indef)
      g = _cond(i + variant + 2, chain, lv)
      return (['try:'] + ind(['if %s:' % g] + ind(['raise UErr(t(%d, 0))' % sk.tid()]) +
                             [sk.tr('a', 7)]) +
              ['except UErr:'] + ind([sk.tr('c', 8)]) +
              ['else:'] + ind(inner + [sk.tr('c', 10)]) + [sk.tr('a', 9)])
    if c == 'trybodyelse':
      # the guarded jump sits in the BODY of a try that has an else clause (which must not
      # run when the body is left by the jump)
      inner = wrap(i + 1, lv, indef)
      return (['try:'] + ind(inner + [sk.tr('a', 7)]) + ['except UErr:'] + ind([sk.tr('c', 8)]) +
              ['else:'] + ind([sk.tr('c', 10)]) + [sk.tr('a', 9)])
    if c == 'handlerfin':
      # the guarded jump sits in an except body of a try that also has a finally
      inner = wrap(i + 1, lv, indef)
      g = _cond(i + variant + 2, chain, lv)
      return (['try:'] + ind(['if %s:' % g] + ind(['raise UErr(t(%d, 0))' % sk.tid()]) +
                             [sk.tr('a', 7)]) +
              ['except UErr:'] + ind(inner + [sk.tr('c', 8)]) +
              ['finally:'] + ind([sk.tr('c', 10)]) + [sk.tr('a', 9)])
    if c == 'with':
      inner = wrap(i + 1, lv, indef)
      return (['with CM(%d):' % sk.tid()] + ind(inner + [sk.tr('a', 7)]) + [sk.tr('c', 9)])
    if c == 'def':
      h = 'h%d' % i
      inner = wrap(i + 1, None, True)
      # the nested function reads and rebinds the enclosing a/c through nonlocal
      return (['def %s(p):' % h] +
              ind(['nonlocal a, c'] + (["chk('%s')" % h] if chk else []) + inner + ['return a + p']) +
              ['a = %s(%d)' % (h, i + 1), sk.tr('c', 11)])
    raise ValueError(c)

  body = ['a = 0', 'c = 0'] + wrap(0, None, False) + ['return (a, c)']
  return '\n'.join(['def f(x, n, b, xs):'] + ind(body)) + '\n'


PURE_CONSTRUCTS = ['if', 'ifelse', 'orelse', 'while', 'for', 'forxs', 'tryfin']
PURE_LEAVES = ['assign', 'break', 'continue', 'return']


def skeletons(max_depth, variants=(0,), pure=False, chk=False):
  """All valid (chain, leaf) skeletons with 1 <= len(chain) <= max_depth.

  pure=True: side-effect-free, total programs (no tracer, no raise, no with).
  """
  out = []

  def rec(chain):
    if chain:
      for leaf in (PURE_LEAVES if pure else LEAVES):
        if _skeleton_valid(chain, leaf):
          for v in variants:
            name = '%s:%s:%s:v%d' % ('psk' if pure else 'sk', '>'.join(chain), leaf, v)
            tags = set(chain) | {'leaf_' + leaf}
            out.append(Prog(name, build_skeleton(chain, leaf, v, pure, chk), tags))
    if len(chain) < max_depth:
      for c in (PURE_CONSTRUCTS if pure else CONSTRUCTS):
        rec(chain + [c])

  rec([])
  return out


# ----------------------------------------------------------------------------
# Seeded random tail
# ----------------------------------------------------------------------------

class _Ctx(object):

  def __init__(self, ints, wr, loop=False, indef=False, depth=0, loopvars=()):
    self.ints = list(ints)      # readable int variables
    self.wr = list(wr)          # assignable int variables
    self.loop = loop            # break/continue allowed
    self.indef = indef
    self.depth = depth
    self.loopvars = list(loopvars)

  def sub(self, **kw):
    c = _Ctx(self.ints, self.wr, self.loop, self.indef, self.depth + 1, self.loopvars)
    for k, v in kw.items():
      setattr(c, k, v)
    return c


ALL_FEATURES = frozenset([
    'if', 'while', 'for', 'forxs', 'forenum', 'break', 'continue', 'return',
    'try', 'with', 'def', 'lambda', 'global', 'boolop', 'ifexp', 'compr',
    'helper', 'tuple', 'attr', 'subscript', 'listops', 'raise', 'method',
    'augassign', 'chaincmp', 'builtins', 'undef', 'del', 'partial',
    # statement kinds / operators the first grammars did not produce (audit of AST node kinds):
    'kinds2',   # annotated / chained / starred / nested-tuple assignment, pass, import, assert,
                # multi-item with, class statements, walrus in an if test
    'ops2',     # % // ~ is / is not / in / not in, slices, star-args, set / dict / generator comprehensions
])
# Side-effect free and total: what a functional (tracing) backend may run
# speculatively (both branches, loop body once out of band).
PURE_FEATURES = frozenset([
    'if', 'while', 'for', 'forxs', 'break', 'continue', 'return', 'tuple',
    'attr', 'subscript', 'augassign', 'chaincmp', 'def_pure', 'ifexp_pure',
    'boolop_pure',
])


class RandomGen(object):

  def __init__(self, seed, features=ALL_FEATURES, max_depth=3, max_stmts=5,
               tracer=True, chk=False):
    self.chk = chk
    self.r = random.Random(seed)
    self.f = set(features)
    self.max_depth = max_depth
    self.max_stmts = max_stmts
    self.tracer = tracer
    self.k = 0
    self.uid = 0
    self.tags = set()
    self.need_helper = False
    self.need_global = False

  # -- helpers ---------------------------------------------------------------
  def tid(self):
    self.k += 1
    return self.k

  def fresh(self, p):
    self.uid += 1
    return '%s%d' % (p, self.uid)

  def has(self, f):
    return f in self.f

  def T(self, e):
    """Wrap expression text in a tracer call (if tracing is allowed)."""
    if self.tracer:
      return 't(%d, %s)' % (self.tid(), e)
    return e

  # -- expressions -----------------------------------------------------------
  def atom(self, ctx):
    r = self.r.random()
    if r < 0.55 and ctx.ints:
      return self.r.choice(ctx.ints)
    if r < 0.7:
      return self.r.choice(['x', 'n'])
    return str(self.r.randint(0, 4))

  def expr2(self, ctx, d):
    """Operators and expression kinds of feature 'ops2' (all total on ints)."""
    self.tags.add('ops2')
    k = self.r.randint(0, 8)
    e = self.expr(ctx, d + 1)
    if k == 0:
      return '(%s %% %d)' % (e, self.r.randint(2, 3))
    if k == 1:
      return '(%s // %d)' % (e, self.r.randint(2, 3))
    if k == 2:
      return '(~%s)' % self.atom(ctx)
    if k == 3:
      return 'len(xs[%s:])' % self.r.choice(['1', 'n', '-1', 'n - 1'])
    if k == 4:
      return 'sum(xs[:%s] + [%s])' % (self.r.choice(['1', 'n']), e)
    if k == 5 and self.has('helper'):
      self.need_helper = True
      if self.r.random() < 0.5:
        return 'helper(*[%s, %s])' % (e, self.atom(ctx))
      return "helper(%s, **{'q': %s})" % (e, self.atom(ctx))
    q = self.fresh('q')
    if k == 6:
      return 'sum(%s for %s in xs if %s > x)' % (self.T(q), q, q)
    if k == 7:
      return 'len({%s %% 2 for %s in xs})' % (q, q)
    return 'sum({%s: %s for %s in xs}.values())' % (q, e if self.r.random() < 0.5 else q, q)

  def expr(self, ctx, d=0):
    r = self.r.random()
    if d < 2 and self.has('ops2') and self.r.random() < 0.1:
      return self.expr2(ctx, d)
    if d >= 2 or r < 0.3:
      a = self.atom(ctx)
      return self.T(a) if self.r.random() < 0.4 else a
    if r < 0.6:
      return '%s %s %s' % (self.expr(ctx, d + 1), self.r.choice(['+', '-']), self.expr(ctx, d + 1))
    if r < 0.68:
      if (self.has('boolop') or self.has('boolop_pure')) and self.r.random() < 0.25:
        # a logical expression as operand of an arithmetic unary operator
        self.tags.add('boolop')
        return '-%s' % self.cond(ctx, 1) if self.r.random() < 0.7 else '+(not %s)' % self.cond(ctx, 1)
      return '%s * %d' % (self.expr(ctx, d + 1), self.r.randint(2, 3))
    if r < 0.76 and (self.has('ifexp') or self.has('ifexp_pure')):
      self.tags.add('ifexp')
      return '(%s if %s else %s)' % (self.expr(ctx, d + 1), self.cond(ctx, d + 1), self.expr(ctx, d + 1))
    if r < 0.82 and self.has('builtins'):
      self.tags.add('builtins')
      return self.r.choice(['abs(%s)', 'len(xs) + %s', 'min(%s, n)', 'max(%s, x)', 'int(%s)']) % self.expr(ctx, d + 1)
    if r < 0.88 and self.has('lambda'):
      self.tags.add('lambda')
      z = self.fresh('z')
      free = self.r.choice(ctx.ints) if ctx.ints else '1'
      return '(lambda %s: %s + %s)(%s)' % (z, z, free, self.expr(ctx, d + 1))
    if r < 0.93 and self.has('compr'):
      self.tags.add('compr')
      q = self.fresh('q')
      flt = (' if %s > x' % q) if self.r.random() < 0.5 else ''
      return 'sum([%s for %s in xs%s])' % (self.T(q), q, flt)
    if r < 0.97 and self.has('helper'):
      self.tags.add('helper')
      self.need_helper = True
      return 'helper(%s, %s)' % (self.expr(ctx, d + 1), self.atom(ctx))
    a = self.atom(ctx)
    return self.T(a)

  def cmp(self, ctx, d=0):
    ops = ['<', '>', '==', '!=', '<=', '>=']
    l = self.expr(ctx, d + 1) if self.r.random() < 0.5 else self.atom(ctx)
    if self.has('chaincmp') and self.r.random() < 0.15:
      self.tags.add('chaincmp')
      # the middle operand is kept effect-free: duplicated evaluation of an
      # effectful middle operand is a listed known finding with its own witness
      return '%s %s %s %s %s' % (self.expr(ctx, d + 1), self.r.choice(['<', '<=']), self.atom(ctx),
                                 self.r.choice(['<', '<=']), self.expr(ctx, d + 1))
    return '%s %s %s' % (l, self.r.choice(ops), self.atom(ctx))

  def cond(self, ctx, d=0):
    r = self.r.random()
    if d < 2 and r < 0.3 and (self.has('boolop') or self.has('boolop_pure')):
      self.tags.add('boolop')
      op = self.r.choice(['and', 'or'])
      return '(%s %s %s)' % (self.cond(ctx, d + 1), op, self.cond(ctx, d + 1))
    if d < 2 and r < 0.4 and (self.has('boolop') or self.has('boolop_pure')):
      self.tags.add('boolop')
      return '(not %s)' % self.cond(ctx, d + 1)
    if self.has('ops2') and self.r.random() < 0.1:
      self.tags.add('ops2')
      a = self.r.choice(ctx.ints or ['x'])
      return self.r.choice(['%s in xs', '%s not in xs', '%s in (1, x)', '%s not in [0, n]', '(%s is None)',
                            '(%s is not None)', '(xs is not None and %s == 0)']) % a
    if r < 0.48:
      return 'b'
    if r < 0.56 and ctx.loopvars:
      return '%s == x' % self.r.choice(ctx.loopvars)
    if r < 0.62 and self.tracer:
      return '%s > 0' % self.T(self.atom(ctx))
    return self.cmp(ctx, d)

  # -- statements ------------------------------------------------------------
  def block(self, ctx, n=None):
    n = n or self.r.randint(1, self.max_stmts if ctx.depth == 0 else 3)
    out = []
    for _ in range(n):
      out.extend(self.stmt(ctx))
      if out and out[-1].strip().split(' ')[0] in ('break', 'continue', 'return', 'raise'):
        break
    return out or ['pass']

  def assign(self, ctx):
    v = self.r.choice(ctx.wr)
    r = self.r.random()
    if r < 0.15 and self.has('augassign'):
      return ['%s %s= %s' % (v, self.r.choice(['+', '-']), self.expr(ctx))]
    if r < 0.25 and self.has('tuple') and len(ctx.wr) >= 2:
      self.tags.add('tuple')
      u = self.r.choice([w for w in ctx.wr if w != v])
      return ['%s, %s = %s, %s' % (v, u, self.expr(ctx, 1), self.expr(ctx, 1))]
    if r < 0.37 and self.has('attr'):
      self.tags.add('attr')
      fld = self.r.choice(['v', 'w'])
      # in the pure family a called local function must not mutate objects of
      # its caller (documented: modifications are not detected across functions)
      if self.r.random() < 0.5 and not (ctx.indef and not self.has('def')):
        return ['o.%s = o.%s + %s' % (fld, fld, self.expr(ctx, 1))]
      return ['%s = o.%s + %s' % (v, fld, self.atom(ctx))]
    if r < 0.47 and self.has('subscript'):
      self.tags.add('subscript')
      if self.r.random() < 0.5 and not (ctx.indef and not self.has('def')):
        return ["d['k'] = d['k'] + %s" % self.expr(ctx, 1)]
      return ["%s = d['k'] - %s" % (v, self.atom(ctx))]
    if r < 0.55 and self.has('listops'):
      self.tags.add('listops')
      return [self.r.choice(['l.append(%s)', 'l = l + [%s]', 'l[0] = %s']) % self.expr(ctx, 1)]
    if r < 0.6 and self.has('method'):
      self.tags.add('method')
      return ['%s = o.bump(%s)' % (v, self.atom(ctx))]
    if r < 0.65 and self.has('global'):
      self.tags.add('global')
      self.need_global = True
      if self.r.random() < 0.4:
        return ['G = %s' % self.expr(ctx, 1)]   # write-only form
      return ['G = G + %s' % self.expr(ctx, 1)]
    if r < 0.69 and self.has('partial'):
      self.tags.add('partial')
      self.need_helper = True
      if self.r.random() < 0.5:
        # a keyword pre-bound in the partial and given again at the call site
        return ['%s = functools.partial(helper, q=%s)(%s, q=%s)' % (v, self.atom(ctx), self.atom(ctx), self.atom(ctx))]
      return ['%s = functools.partial(helper, %s)(%s)' % (v, self.atom(ctx), self.atom(ctx))]
    return ['%s = %s' % (v, self.expr(ctx))]

  def stmt2(self, ctx):
    """Statement kinds of feature 'kinds2'."""
    self.tags.add('kinds2')
    k = self.r.randint(0, 10)
    v = self.r.choice(ctx.wr)
    if k == 0 and not ctx.indef:      # (an annotated name cannot be declared nonlocal)
      return ['%s: int = %s' % (v, self.expr(ctx, 1))]
    if k == 1:
      u = self.fresh('u')
      return ['%s: int' % u, 'pass']
    if k == 2 and len(ctx.wr) >= 2:
      u = self.r.choice([w for w in ctx.wr if w != v])
      return ['%s = %s = %s' % (v, u, self.expr(ctx, 1))]
    if k == 3:
      rest = self.fresh('rest')
      return ['%s, *%s = [%s, %s, %s]' % (v, rest, self.expr(ctx, 1), self.atom(ctx), self.atom(ctx)),
              '%s = %s + len(%s)' % (v, v, rest)]
    if k == 4 and len(ctx.wr) >= 2:
      u = self.r.choice([w for w in ctx.wr if w != v])
      w = self.fresh('w')
      return ['(%s, %s), %s = (%s, %s), %s' % (v, w, u, self.expr(ctx, 1), self.atom(ctx), self.expr(ctx, 1)),
              '%s = %s + %s' % (u, u, w)]
    if k == 5:
      m = self.fresh('op')
      form = self.r.choice(['import operator as %s', 'import operator as %s', 'from operator import add as %s'])
      if form.startswith('from'):
        return [form % m, '%s = %s(%s, %s)' % (v, m, self.expr(ctx, 1), self.atom(ctx))]
      return [form % m, '%s = %s.add(%s, %s)' % (v, m, self.expr(ctx, 1), self.atom(ctx))]
    if k == 6 and not self.chk:     # (assert stays native: it would truth-test an opaque value)
      return ['assert %s == %s, %s' % (v, v, self.T("'unreachable'") if self.tracer else "'unreachable'")]
    if k == 7 and self.has('with'):
      self.tags.add('with')
      p = self.fresh('p')
      return (['with CM(%d) as %s, CM(%s + 1):' % (self.tid(), p, p)] +
              ind(['%s = %s + %s' % (v, v, p)] + self.block(ctx.sub(ints=ctx.ints + [p]))))
    if k == 8 and not ctx.indef:
      cn = self.fresh('K')
      return (['class %s(object):' % cn] +
              ind(['val = %s' % self.expr(ctx, 1), 'def get(self, p):', '  return p + self.val']) +
              ['%s = %s().get(%s) - %s.val' % (v, cn, self.atom(ctx), cn)])
    if k == 9 and self.has('if'):
      w = self.fresh('w')
      return ['if (%s := %s) > %s:' % (w, self.expr(ctx, 1), self.atom(ctx))] + ind(['%s = %s' % (v, w)])
    return ['pass']

  def stmt(self, ctx):
    r = self.r.random()
    deep = ctx.depth >= self.max_depth
    if self.has('kinds2') and self.r.random() < 0.12:
      return self.stmt2(ctx)
    if deep or r < 0.34:
      return self.assign(ctx)
    if r < 0.5 and self.has('if'):
      out = ['if %s:' % self.cond(ctx)] + ind(self.block(ctx.sub()))
      q = self.r.random()
      if q < 0.2:
        out += ['elif %s:' % self.cond(ctx)] + ind(self.block(ctx.sub()))
      if q < 0.5:
        out += ['else:'] + ind(self.block(ctx.sub()))
      return out
    if r < 0.58 and self.has('for'):
      v = self.fresh('i')
      c = ctx.sub(loop=True, ints=ctx.ints + [v], loopvars=ctx.loopvars + [v])
      return ['for %s in range(n):' % v] + ind(self.block(c))
    if r < 0.63 and self.has('forxs'):
      v = self.fresh('e')
      c = ctx.sub(loop=True, ints=ctx.ints + [v], loopvars=ctx.loopvars + [v])
      if self.has('break') and self.has('listops') and self.r.random() < 0.3:
        # a one-shot iterator whose remaining contents are observed after the loop
        self.tags.add('iterator')
        it = self.fresh('it')
        return (['%s = iter(xs)' % it, 'for %s in %s:' % (v, it)] + ind(self.block(c)) +
                ['l = l + list(%s)' % it])
      return ['for %s in xs:' % v] + ind(self.block(c))
    if r < 0.66 and self.has('forenum'):
      self.tags.add('forenum')
      v, w = self.fresh('j'), self.fresh('e')
      c = ctx.sub(loop=True, ints=ctx.ints + [v, w], loopvars=ctx.loopvars + [v])
      src = self.r.choice(['enumerate(xs)', 'zip(range(n), xs)'])
      return ['for %s, %s in %s:' % (v, w, src)] + ind(self.block(c))
    if r < 0.72 and self.has('while'):
      w = self.fresh('w')
      c = ctx.sub(loop=True, ints=ctx.ints + [w], loopvars=ctx.loopvars + [w])
      extra = ''
      if self.r.random() < 0.3:
        extra = ' and %s' % self.cmp(ctx, 1)
      return (['%s = 0' % w, 'while %s < n%s:' % (w, extra)] +
              ind(['%s = %s + 1' % (w, w)] + self.block(c)))
    if r < 0.77 and ctx.loop and (self.has('break') or self.has('continue')):
      j = self.r.choice([k for k in ('break', 'continue') if self.has(k)])
      self.tags.add(j)
      return ['if %s:' % self.cond(ctx)] + ind([self.assign(ctx)[0], j])
    if r < 0.81 and self.has('return'):
      self.tags.add('return')
      return ['if %s:' % self.cond(ctx)] + ind(['return %s' % self.expr(ctx, 1)])
    if r < 0.86 and self.has('try'):
      self.tags.add('try')
      q = self.r.random()
      body = self.block(ctx.sub())
      if self.has('raise') and self.r.random() < 0.6:
        body = (['if %s:' % self.cond(ctx)] +
                ind(['raise UErr(%s)' % self.T(self.atom(ctx))]) + body)
      out = ['try:'] + ind(body)
      if q < 0.65:
        out += ['except UErr:'] + ind(self.block(ctx.sub(), 1))
        if self.r.random() < 0.35:
          out += ['else:'] + ind(self.block(ctx.sub(), self.r.randint(1, 2)))
      if q > 0.4:
        # jumps inside finally are a documented limit: finally bodies are plain
        out += ['finally:'] + ind(self.assign(ctx))
      return out
    if r < 0.9 and self.has('with'):
      self.tags.add('with')
      return ['with CM(%d):' % self.tid()] + ind(self.block(ctx.sub()))
    if r < 0.95 and (self.has('def') or self.has('def_pure')) and not ctx.indef:
      self.tags.add('def')
      h = self.fresh('h')
      p = self.fresh('p')
      nl = [v for v in ctx.wr if self.r.random() < 0.4] if self.has('def') else []
      c = _Ctx(ctx.ints + [p], nl + [p] if nl else [p], loop=False, indef=True,
               depth=ctx.depth + 1)
      body = ((['nonlocal %s' % ', '.join(nl)] if nl else []) +
              (["chk('%s')" % h] if self.chk else []) + self.block(c, self.r.randint(1, 3)))
      if not body[-1].startswith('return'):
        body.append('return %s' % self.expr(c, 1))
      v = self.r.choice(ctx.wr)
      return ['def %s(%s):' % (h, p)] + ind(body) + ['%s = %s(%s)' % (v, h, self.atom(ctx))]
    if r < 0.97 and self.has('undef'):
      self.tags.add('undef')
      u = self.fresh('u')
      return (['if %s:' % self.cond(ctx)] + ind(['%s = %s' % (u, self.atom(ctx))]) +
              ['%s = %s + 1' % (self.r.choice(ctx.wr), u)])
    if r < 0.985 and self.has('del'):
      self.tags.add('del')
      u = self.fresh('u')
      return ['%s = %s' % (u, self.atom(ctx)), 'del %s' % u]
    return self.assign(ctx)

  def program(self, name):
    ctx = _Ctx(['a', 'c'], ['a', 'c'])
    body = ['a = 0', 'c = 1']
    if self.f & {'attr', 'method'}:
      body.append('o = O()')
    if self.has('subscript'):
      body.append("d = {'k': 0}")
    if self.has('listops'):
      body.append('l = [0]')
    stm = self.block(ctx, self.r.randint(2, self.max_stmts))
    if self.need_global:
      body.insert(0, 'global G')
    body += stm
    ret = ['a', 'c']
    if self.f & {'attr', 'method'}:
      ret += ['o.v', 'o.w']
    if self.has('subscript'):
      ret.append("d['k']")
    if self.has('listops'):
      ret.append('l')
    body.append('return (%s)' % ', '.join(ret))
    src = ''
    if self.need_helper:
      src += HELPER_SRC.replace('  r = 0\n', "  chk('helper')\n  r = 0\n", 1) if self.chk else HELPER_SRC
    src += '\n'.join(['def f(x, n, b, xs):'] + ind(body)) + '\n'
    globs = {'G': 0} if self.need_global else {}
    return Prog(name, src, self.tags, globs)


HELPER_SRC = '''def helper(p, q):
  r = 0
  for k in range(2):
    if p > q + k:
      r = r + t(900 + k, p)
      continue
    r = r - 1
  while r > 3:
    r = r - 2
    if r == q:
      return r + 100
  return r

'''


def random_programs(count, seed, features=ALL_FEATURES, max_depth=3, max_stmts=5,
                    tracer=True, prefix='rnd', chk=False):
  out = []
  for i in range(count):
    g = RandomGen(seed * 100003 + i, features, max_depth, max_stmts, tracer, chk)
    out.append(g.program('%s:%d:%d' % (prefix, seed, i)))
  return out
