"""Entry point.

  python3 -m vf check C01 [--tier quick|thorough]
  python3 -m vf replay <path>

Runs under any python3: the first thing it does is make sure the overlay venv
(/verif/.venv: /venv's site-packages + crosshair-tool + z3-solver from the
offline wheelhouse) exists and re-exec itself inside it.
"""
import os
import subprocess
import sys

ROOT = os.path.dirname(os.path.dirname(os.path.abspath(__file__)))
VENV_PY = os.path.join(ROOT, '.venv', 'bin', 'python')


def _bootstrap():
  if os.environ.get('VF_IN_VENV') == '1':
    return
  ok = False
  if os.path.exists(VENV_PY):
    ok = subprocess.call(
        [VENV_PY, '-c', 'import crosshair, z3, malt'],
        stdout=subprocess.DEVNULL, stderr=subprocess.DEVNULL) == 0
  if not ok:
    r = subprocess.call(['sh', os.path.join(ROOT, 'setup.sh')],
                        stdout=sys.stderr)
    if r != 0:
      print('vf: cannot build overlay venv', file=sys.stderr)
      sys.exit(3)
  env = dict(os.environ)
  env['VF_IN_VENV'] = '1'
  env.setdefault('PYTHONHASHSEED', '0')
  env['PYTHONPATH'] = ROOT + os.pathsep + env.get('PYTHONPATH', '')
  env['PYTHONDONTWRITEBYTECODE'] = '1'
  os.execve(VENV_PY, [VENV_PY, '-m', 'vf'] + sys.argv[1:], env)


def main():
  _bootstrap()
  from vf import cli
  sys.exit(cli.main(sys.argv[1:]))


if __name__ == '__main__':
  main()
