"""Unit-harness obligations: a module-level function with a PEP316 contract is
handed to CrossHair; counterexamples are re-run natively in the worker."""
import importlib
import logging
import os
import time
import traceback


def work(payload):
  logging.disable(logging.WARNING)
  if payload.get('tmpdir'):
    os.environ['TMPDIR'] = payload['tmpdir']
    import tempfile
    tempfile.tempdir = payload['tmpdir']
  from vf import xh
  name = '%s.%s' % (payload['module'], payload['func'])
  res = {'name': name}
  try:
    mod = importlib.import_module(payload['module'])
    if payload.get('setup'):
      getattr(mod, payload['setup'])(*payload.get('setup_args', ()))
    fn = getattr(mod, payload['func'])
  except Exception as e:  # pylint:disable=broad-except
    res.update(verdict='error', detail='import: %r\n%s' % (e, traceback.format_exc()[-1500:]))
    return res
  r = xh.decide(fn, payload.get('per_condition_timeout', 30.0), payload.get('per_path_timeout', 10.0))
  res.update(r)
  if r['verdict'] == 'refuted':
    args, kwargs = r['cex']
    try:
      ok = fn(*args, **kwargs)
      exc = None
    except Exception as e:  # pylint:disable=broad-except
      ok, exc = False, repr(e)
    if ok:
      res.update(verdict='error', detail='counterexample does not reproduce natively: ' + r['detail'])
    else:
      res['replay_exc'] = exc
      if hasattr(mod, 'explain'):
        try:
          res['explain'] = mod.explain(payload['func'], args, kwargs)
        except Exception as e:  # pylint:disable=broad-except
          res['explain'] = 'explain failed: %r' % (e,)
  return res


def replay(obj):
  """Replay file {engine:'unit', module, func, cex:[args, kwargs], setup?}."""
  mod = importlib.import_module(obj['module'])
  if obj.get('setup'):
    getattr(mod, obj['setup'])(*obj.get('setup_args', ()))
  fn = getattr(mod, obj['func'])
  args, kwargs = obj['cex']
  print('property  :', obj.get('property'))
  print('harness   : %s.%s' % (obj['module'], obj['func']))
  print('arguments :', args, kwargs or '')
  try:
    ok = fn(*args, **kwargs)
  except Exception as e:  # pylint:disable=broad-except
    print('harness raised', repr(e))
    ok = False
  if hasattr(mod, 'explain'):
    print('detail    :', mod.explain(obj['func'], args, kwargs))
  print('postcondition holds:', bool(ok))
  return 0 if ok else 1


def run_units(run, module, funcs, pct=30.0, ppt=10.0, title='unit harness refuted', tags_for=None,
              setup=None, hard_timeout=None):
  """funcs: list of function names (or (name, setup_args)). Accounts verdicts in `run`."""
  from vf import pool
  tasks, meta = [], []
  for f in funcs:
    sa = ()
    if isinstance(f, tuple):
      f, sa = f
    tasks.append(('vf.unit', 'work', {'module': module, 'func': f, 'tmpdir': run.tmpdir,
                                      'per_condition_timeout': pct, 'per_path_timeout': ppt,
                                      'setup': setup, 'setup_args': sa}))
    meta.append((f, sa))
  results = pool.run_tasks(tasks, hard_timeout=hard_timeout or int(pct * 2 + 60),
                           stderr_path=os.path.join(run.tmpdir, 'workers.err'))
  for (f, sa), r in zip(meta, results):
    run.count(r)
    if r.get('verdict') == 'confirmed':
      run.sample({'harness': '%s.%s' % (module, f), 'setup_args': list(sa), 'verdict': 'confirmed',
                  'solver_s': r.get('solver_s')})
    if r.get('verdict') == 'refuted':
      tags = set(tags_for(f, r)) if tags_for else set()
      run.violation('%s: %s.%s%s args=%r %s' % (title, module, f, list(sa) or '', r.get('cex'),
                                               r.get('explain') or ''),
                    {'engine': 'unit', 'module': module, 'func': f, 'cex': r.get('cex'),
                     'setup': setup, 'setup_args': list(sa), 'detail': r.get('detail'),
                     'explain': r.get('explain')}, tags)
  return results
