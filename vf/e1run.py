"""Runs a family of E1 obligations (programs x modes) and accounts the verdicts."""
import os

from vf import pool


def run_family(run, progs, modes, bounds, per_condition_timeout=20.0,
               per_path_timeout=5.0, classify=None, hard_timeout=None,
               mode_for=None, title='converted function differs from original'):
  """progs: list of gen.Prog; modes: list of mode dicts (every prog x every mode
  unless mode_for(prog) returns the list of modes for that program)."""
  tasks = []
  meta = []
  for p in progs:
    # hand-written programs around library-heavy constructs (strings, sets, star-args)
    # have more paths: three times the budget of the generated ones
    k = 3.0 if 'exotic' in p.tags else 1.0
    for m in (mode_for(p) if mode_for else modes):
      payload = {'prog': p.as_dict(), 'mode': m, 'bounds': bounds, 'tmpdir': run.tmpdir,
                 'per_condition_timeout': per_condition_timeout * k,
                 'per_path_timeout': per_path_timeout * k}
      tasks.append(('vf.e1', 'work', payload))
      meta.append((p, m))
  # long obligations first, so that they do not end up alone at the tail of the run
  order = sorted(range(len(tasks)), key=lambda i: -tasks[i][2]['per_condition_timeout'])
  tasks = [tasks[i] for i in order]
  meta = [meta[i] for i in order]
  hard = hard_timeout or int(per_condition_timeout * 3 * 2 + 60)
  done = [0]

  def progress(k, n, r):
    if k % 50 == 0 or k == n:
      run.log('%d/%d obligations' % (k, n))

  results = pool.run_tasks(tasks, hard_timeout=hard,
                           stderr_path=os.path.join(run.tmpdir, 'workers.err'),
                           progress=progress)
  stats = {'programs': len(progs), 'obligations': len(tasks), 'by_mode': {}}
  for (p, m), r in zip(meta, results):
    r.setdefault('name', p.name)
    run.count(r)
    mk = mode_key(m)
    bm = stats['by_mode'].setdefault(mk, {'confirmed': 0, 'refuted': 0, 'inconclusive': 0, 'error': 0})
    bm[r.get('verdict', 'error')] = bm.get(r.get('verdict', 'error'), 0) + 1
    if r.get('verdict') == 'confirmed':
      run.sample({'program': p.name, 'source': p.src, 'mode': m, 'bounds': bounds,
                  'verdict': 'confirmed', 'solver_s': r.get('solver_s')})
    if r.get('verdict') == 'refuted':
      tags = set(classify(p, m, r)) if classify else set()
      what = r.get('detail') if r.get('kind') == 'conversion_error' else (
          'args=%r (%s)' % (r.get('cex'), r.get('found_by')))
      run.violation(
          '%s: %s [%s] %s' % (title, p.name, mk, what),
          {'engine': 'e1', 'kind': r.get('kind'), 'program': p.src, 'program_name': p.name,
           'mode': m, 'bounds': bounds, 'cex': r.get('cex'),
           'module_source': r.get('module_source'), 'detail': r.get('detail'),
           'found_by': r.get('found_by'), 'conv': r.get('conv')},
          tags)
  return results, stats


def mode_key(m):
  parts = [m.get('api', 'to_graph')]
  if m.get('backend'):
    parts.append(m['backend'])
  parts.append('rec' if m.get('recursive', True) else 'nonrec')
  if m.get('features'):
    parts.append('+'.join(m['features']))
  return '/'.join(parts)
