"""vf: solver-based checking of diastatic-malt (see /verif/DESIGN.md)."""
