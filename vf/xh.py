"""CrossHair driver: decide one harness function with z3, classify the verdict.

verdicts
  confirmed     CrossHair: "Confirmed over all paths" (every value inside the
                harness precondition was covered)
  refuted       a counterexample was produced; 'cex' holds the literal args
  inconclusive  CANNOT_CONFIRM / PRE_UNSAT / time-out / anything else
  error         harness problem (syntax, import, exception in the harness)
"""
import ast
import math
import time

from crosshair.core_and_libs import analyze_function, run_checkables, MessageType
from crosshair.options import AnalysisOptionSet, AnalysisKind


def parse_call(text):
  """'false when calling check(4, [0, 1], b=True)' -> ([4, [0,1]], {'b': True})."""
  i = text.find('calling ')
  if i < 0:
    return None
  src = text[i + len('calling '):].strip()
  # strip trailing explanations such as " (which returns False)"
  depth = 0
  end = None
  for j, ch in enumerate(src):
    if ch == '(':
      depth += 1
    elif ch == ')':
      depth -= 1
      if depth == 0:
        end = j + 1
        break
  if end is None:
    return None
  try:
    call = ast.parse(src[:end], mode='eval').body
  except SyntaxError:
    return None
  env = {'float': float, 'nan': math.nan, 'inf': math.inf, 'True': True,
         'False': False, 'None': None}

  def ev(node):
    return eval(compile(ast.Expression(node), '<cex>', 'eval'), {'__builtins__': {}}, env)  # pylint:disable=eval-used

  try:
    args = [ev(a) for a in call.args]
    kwargs = dict((k.arg, ev(k.value)) for k in call.keywords)
  except Exception:  # pylint:disable=broad-except
    return None
  return args, kwargs


def decide(fn, per_condition_timeout=20.0, per_path_timeout=5.0):
  t0 = time.time()
  opts = AnalysisOptionSet(
      per_condition_timeout=per_condition_timeout,
      per_path_timeout=per_path_timeout,
      analysis_kind=[AnalysisKind.PEP316])
  try:
    checkables = analyze_function(fn, opts)
  except Exception as e:  # pylint:disable=broad-except
    return {'verdict': 'error', 'detail': 'analyze_function: %r' % (e,)}
  if not checkables:
    return {'verdict': 'error', 'detail': 'no contract found on harness'}
  msgs = list(run_checkables(checkables))
  dt = round(time.time() - t0, 3)
  if not msgs:
    return {'verdict': 'inconclusive', 'detail': 'no message', 'solver_s': dt}
  worst = None
  for m in msgs:
    st = m.state
    if st == MessageType.CONFIRMED:
      continue
    worst = m
    if st in (MessageType.POST_FAIL, MessageType.EXEC_ERR, MessageType.POST_ERR):  # keep the strongest
      break
  if worst is None:
    return {'verdict': 'confirmed', 'detail': msgs[0].message, 'solver_s': dt}
  st = worst.state
  if st in (MessageType.POST_FAIL, MessageType.EXEC_ERR, MessageType.POST_ERR):
    parsed = parse_call(worst.message)
    if parsed is None:
      return {'verdict': 'inconclusive', 'detail': 'unparsable counterexample: %s' % worst.message,
              'solver_s': dt}
    return {'verdict': 'refuted', 'detail': '%s: %s' % (st.name, worst.message),
            'cex': parsed, 'solver_s': dt}
  if st in (MessageType.SYNTAX_ERR, MessageType.IMPORT_ERR):
    return {'verdict': 'error', 'detail': '%s: %s' % (st.name, worst.message), 'solver_s': dt}
  return {'verdict': 'inconclusive', 'detail': '%s: %s' % (st.name, worst.message), 'solver_s': dt}
