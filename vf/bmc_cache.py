"""E3 scenario for C10: thread schedules through the real PyToPy.transform_function.

The step list is extracted on every run from /repo/malt/pyct/transpiler.py
(PyToPy.transform_function, _cached_factory) and /repo/malt/pyct/cache.py
(_TransformedFnCache.has / __getitem__, CodeObjectCache._get_key).
"""
import ast
import os
import sys
import threading
import time

from vf import bmc, py2smt
from vf.common import REPO

STUBS = [
    'entity.__code__ is identified with the request key; hasattr(entity, "__code__") is True',
    'self.get_caching_key(user_context) returns the request subkey',
    'super().transform_function(fn, user_context) = the counted TRANSFORM action (no other effect)',
    '_PythonFnFactory(...) allocates a fresh factory; .create sets its created bit; .instantiate requires it',
    'logging / ast / parser expressions and assignments to untracked locals (nodes, ctx) have no modelled effect',
    'WeakKeyDictionary.get/__setitem__, dict.__contains__/__getitem__/__setitem__, RLock acquire/release are atomic',
]


class Hooks(object):

  def expr_hook(self, c, node, fr):
    # self.get_caching_key(user_context) -> the thread's subkey register
    if (isinstance(node, ast.Call) and isinstance(node.func, ast.Attribute)
        and node.func.attr == 'get_caching_key'):
      return fr.locals['user_context']
    if (isinstance(node, ast.Call) and isinstance(node.func, ast.Attribute)
        and node.func.attr in ('get_extra_locals',)):
      return py2smt.OPAQUE
    return None

  def super_call(self, c, name, node, fr):
    if name == 'transform_function':
      key = fr.locals['fn']
      sub = fr.locals.get('cache_subkey') or fr.locals['user_context']
      c.prim('transform', [key, sub], node.lineno, want_result=False)
      return py2smt.TupleVal([py2smt.OPAQUE, py2smt.OPAQUE])
    raise py2smt.Unsupported('super().%s' % name)


def extract():
  """Returns (code, info) for one thread: r = self.transform_function(fn, user_context)."""
  tfun, tcls, _ = py2smt.parse_module(os.path.join(REPO, 'malt/pyct/transpiler.py'))
  cfun, ccls, _ = py2smt.parse_module(os.path.join(REPO, 'malt/pyct/cache.py'))
  classes = {}
  classes['PyToPy'] = dict(tcls['PyToPy'])
  # CodeObjectCache inherits has/__getitem__ from _TransformedFnCache
  coc = dict(ccls['_TransformedFnCache'])
  coc.update(ccls['CodeObjectCache'])
  classes['CodeObjectCache'] = coc
  classes['_PythonFnFactory'] = {}       # constructor call -> new__PythonFnFactory primitive
  wk = py2smt.PrimObj('wkdict', '_cache._cache')
  cache = py2smt.UserObj('CodeObjectCache', {'_cache': wk})
  lock = py2smt.PrimObj('lock', '_cache_lock')
  selfobj = py2smt.UserObj('PyToPy', {'_cache': cache, '_cache_lock': lock})
  comp = py2smt.Compiler({}, classes, {}, Hooks(), opaque_roots=('logging', 'ast', 'parser', 'inspect_utils'))
  fr = py2smt.Frame()
  fr.ret_static = []
  fn = classes['PyToPy']['transform_function']
  res = comp.inline(py2smt.FuncRef(fn, selfobj, 'PyToPy'), [py2smt.Reg('in_fn'), py2smt.Reg('in_sub')], {}, fn)
  # expose the thread's final factory (the local `factory` of transform_function)
  fac = None
  for ins in comp.code:
    if ins[0] == 'mov' and ins[1].endswith('.factory'):
      fac = ins[1]
  if fac is None:
    raise py2smt.Unsupported('transform_function no longer binds a local named factory')
  return comp.code, {'factory_reg': fac, 'result': res}


def build(nthreads):
  code, info = extract()
  programs = [list(code) for _ in range(nthreads)]
  inits = [{'in_fn': ('sym', 'key%d' % t), 'in_sub': ('sym', 'sub%d' % t)} for t in range(nthreads)]
  m = bmc.Model(programs, inits, keys=(1, 2), subs=(1, 2), protect=(info['factory_reg'],))
  return m, info


def violation(model, info):
  fac = info['factory_reg']

  def v(A, s):
    bad = []
    for t in range(model.T):
      bad.append(A.eq(s['st.%d' % t], A.const(2)))       # KeyError / call create first / assert
    for k in model.keys:
      for q in model.subs:
        c = s['tc.%d.%d' % (k, q)]
        bad.append(A.and_(A.nz(c), A.not_(A.eq(c, A.const(1)))))      # transformed more than once
    # each finished thread holds the factory stored in the cache for its key
    for t in range(model.T):
      key, sub = s['r.%d.in_fn' % t], s['r.%d.in_sub' % t]
      stored = A.const(0)
      for k in model.keys:
        for d in model.dict_ids:
          for q in model.subs:
            hit = A.and_(A.eq(key, A.const(k)), A.eq(s['wk.%d' % k], A.const(d)), A.eq(sub, A.const(q)))
            stored = A.ite(hit, s['d.%d.%d' % (d, q)], stored)
      mine = s['r.%d.%s' % (t, fac)]
      bad.append(A.and_(A.eq(s['st.%d' % t], A.const(1)), A.not_(A.eq(stored, mine))))
    return A.or_(*bad)

  return v


def input_constraints(nthreads):
  import z3
  cs = []
  for t in range(nthreads):
    cs.append(lambda syms, t=t: z3.And(z3.Or(syms['key%d' % t] == 1, syms['key%d' % t] == 2),
                                       z3.Or(syms['sub%d' % t] == 1, syms['sub%d' % t] == 2)))
  return cs


# ---------------------------------------------------------------------------
# validation of the translation against the real code (sequential requests)
# ---------------------------------------------------------------------------

def validate_sequential():
  """Runs request sequences on the REAL transpiler and on the extracted model (one
  thread per request, executed one after the other) and compares transform counts /
  hit-miss behaviour. Returns number of traces validated; raises on mismatch."""
  import logging
  logging.disable(logging.WARNING)
  from malt.core import converter
  from vf.harness import c10
  seqs = [[(1, 1)], [(1, 1), (1, 1)], [(1, 1), (2, 1)], [(1, 1), (1, 2), (1, 1)], [(2, 2), (1, 1), (2, 2), (2, 1)]]
  n = 0
  for seq in seqs:
    # real
    fs = {1: c10.make(1, 10), 2: c10_v()}
    tr = c10.Counting()
    facs = []
    for k, q in seq:
      g, module, _ = tr.transform(fs[k], converter.ProgramContext(options=c10.OPTS[q - 1]))
      facs.append(module)
    real_counts = sum(tr.counts.values())
    real_distinct = len(set(id(f) for f in facs))
    # model: thread i performs request i; schedule runs threads to completion in order
    code, info = extract()
    programs = [list(code) for _ in seq]
    inits = [{'in_fn': k, 'in_sub': q} for k, q in seq]
    m = bmc.Model(programs, inits, protect=(info['factory_reg'],))
    sched = []
    for t in range(len(seq)):
      sched += [t] * (len(m.stops[t]) + 1)
    s, trace = bmc.run_schedule(m, sched)
    if any(s['st.%d' % t] != 1 for t in range(len(seq))):
      raise AssertionError('model: sequential run of %r did not finish cleanly' % (seq,))
    model_counts = sum(s['tc.%d.%d' % (k, q)] for k in m.keys for q in m.subs)
    model_distinct = len(set(s['r.%d.%s' % (t, info['factory_reg'])] for t in range(len(seq))))
    if (real_counts, real_distinct) != (model_counts, model_distinct):
      raise AssertionError('translation mismatch on %r: real (transforms, factories)=%r model=%r' % (
          seq, (real_counts, real_distinct), (model_counts, model_distinct)))
    n += 1
  return n


def c10_v():
  from vf.harness import c10_v1
  return c10_v1.target


# ---------------------------------------------------------------------------
# replay of a counterexample schedule on the real code with real threads
# ---------------------------------------------------------------------------

class LineScheduler(object):
  """Forces real threads to execute watched source lines in a given global order."""

  def __init__(self, order, files, timeout=8.0):
    self.order = list(order)            # [(thread index, lineno)]
    self.pos = 0
    self.files = set(files)
    self.cv = threading.Condition()
    self.timeout = timeout
    self.failed = None
    self.idx = {}

  def next_for(self, t):
    for i in range(self.pos, len(self.order)):
      if self.order[i][0] == t:
        return i
    return None

  def _gate(self, t, ln):
    with self.cv:
      i = self.next_for(t)
      if i is not None and self.order[i][1] == ln:
        t0 = time.time()
        while self.pos != i and self.failed is None:
          if not self.cv.wait(0.05) and time.time() - t0 > self.timeout:
            self.failed = 'thread %d stuck waiting for its turn at line %d (position %d/%d)' % (
                t, ln, self.pos, len(self.order))
            self.cv.notify_all()
            break
        if self.failed is None:
          self.pos = i + 1
          self.cv.notify_all()

  def tracer(self, t):
    """Gates 'line' events, and 'return' events into a watched caller line: a shared step
    that happens on a line AFTER an inlined call returned has no line event of its own."""
    def local(frame, event, arg):
      if frame.f_code.co_filename in self.files:
        if event == 'line':
          self._gate(t, frame.f_lineno)
        elif event == 'return' and frame.f_back is not None and frame.f_back.f_code.co_filename in self.files:
          self._gate(t, frame.f_back.f_lineno)
      return local

    def glob(frame, event, arg):
      if frame.f_code.co_filename in self.files:
        return local
      return None

    return glob


def replay_schedule(schedule, inputs, nthreads):
  """Replays a model schedule on the real transform_function with real threads.
  Returns dict(reproduced=bool, detail=...)."""
  import logging
  logging.disable(logging.WARNING)
  from malt.core import converter
  from vf.harness import c10
  m, info = build(nthreads)
  conc = dict(('key%d' % t, inputs.get('key%d' % t, 1)) for t in range(nthreads))
  conc.update(('sub%d' % t, inputs.get('sub%d' % t, 1)) for t in range(nthreads))
  s, trace = bmc.run_schedule(m, schedule, conc)
  order = []
  for t, pc, ln, op in trace:
    if not order or order[-1] != (t, ln):
      order.append((t, ln))
  files = [os.path.join(REPO, 'malt/pyct/transpiler.py'), os.path.join(REPO, 'malt/pyct/cache.py')]
  sch = LineScheduler(order, files)
  fs = {1: c10.make(1, 10), 2: c10_v()}
  tr = c10.Counting()
  results = [None] * nthreads

  def worker(t):
    sys.settrace(sch.tracer(t))
    try:
      k, q = conc['key%d' % t], conc['sub%d' % t]
      try:
        g, module, _ = tr.transform(fs[k], converter.ProgramContext(options=c10.OPTS[q - 1]))
        results[t] = ('ok', id(module))
      except Exception as e:  # pylint:disable=broad-except
        results[t] = ('exc', '%s: %s' % (type(e).__name__, e))
    finally:
      sys.settrace(None)

  ths = [threading.Thread(target=worker, args=(t,)) for t in range(nthreads)]
  for th in ths:
    th.start()
  for th in ths:
    th.join(30)
  counts = dict(tr.counts)
  bad = []
  if any(r is None for r in results):
    bad.append('a thread did not finish')
  for t, r in enumerate(results):
    if r and r[0] == 'exc':
      bad.append('thread %d raised %s' % (t, r[1]))
  if any(c > 1 for c in counts.values()):
    bad.append('transform ran more than once: %r' % (counts,))
  by_key = {}
  for t, r in enumerate(results):
    if r and r[0] == 'ok':
      by_key.setdefault((conc['key%d' % t], conc['sub%d' % t]), set()).add(r[1])
  if any(len(v) > 1 for v in by_key.values()):
    bad.append('threads with the same request hold different conversions')
  return {'reproduced': bool(bad), 'detail': bad, 'scheduler_failed': sch.failed, 'order': order,
          'model_final_status': [s['st.%d' % t] for t in range(nthreads)]}


def replay(obj):
  r = replay_schedule(obj['schedule'], obj['inputs'], obj['threads'])
  print('property  : C10 (thread schedule through PyToPy.transform_function)')
  print('requests  :', obj['inputs'])
  print('schedule  :', obj['schedule'])
  print('line order:', r['order'])
  print('observed  :', r['detail'] or 'no violation', '| scheduler:', r['scheduler_failed'] or 'followed the schedule')
  return 1 if r['reproduced'] else 0


def run(R, tier):
  """Called by vf/checks/C10.py. Returns the coverage fragment."""
  t0 = time.time()
  out = {'assumptions': ['E3 primitive table / stubs: ' + '; '.join(STUBS)]}
  try:
    validated = validate_sequential()
  except py2smt.Unsupported as e:
    R.fatal.append('E3 front end does not recognise the current transform_function/cache code: %s' % e)
    return None
  except AssertionError as e:
    R.fatal.append('E3 translation validation failed: %s' % e)
    return None
  summary = []
  states = transitions = 0
  import z3
  for n in ([2] if tier == 'quick' else [2, 3]):
    m, info = build(n)
    names = ['key%d' % t for t in range(n)] + ['sub%d' % t for t in range(n)]
    if n == 2:
      cons, cap, scope = input_constraints(n), 300, 'every request pair (key, options) in {1,2}x{1,2} per thread'
    else:
      # three threads: the most contended request (all threads ask for the same key/options)
      cons = [lambda syms: z3.And(*[syms[k] == 1 for k in names])]
      cap, scope = 900, 'all three threads request the same (key, options)'
    r = bmc.bmc(m, violation(m, info), sym_inputs=names, input_constraints=cons, timeout_s=cap)
    r['scope'] = scope
    res = {'verdict': {'unsat': 'confirmed', 'sat': 'refuted'}.get(r['result'], 'inconclusive'),
           'name': 'bmc transform_function %d threads' % n, 'solver_s': r['time'], 'detail': str(r)}
    if n == 2 and (r['unwinding'] != 'unsat' or r['reach_twin'] != 'sat'):
      R.fatal.append('BMC sanity failed for %d threads: unwinding=%s reach_twin=%s' % (n, r['unwinding'], r['reach_twin']))
    R.count(res)
    summary.append({'threads': n, 'scope': r['scope'], 'steps': r['steps'], 'result': r['result'], 'unwinding_assertion': r['unwinding'],
                    'reachability_twin': r['reach_twin'], 'time_s': r['time'], 'state_vars': r['vars']})
    if r['result'] == 'sat':
      rp = replay_schedule(r['schedule'], r['inputs'], n)
      if rp['reproduced']:
        R.violation('thread schedule breaks the conversion cache (%d threads): %s' % (n, '; '.join(rp['detail'])),
                    {'engine': 'bmc_cache', 'schedule': r['schedule'], 'inputs': r['inputs'], 'threads': n,
                     'line_order': rp['order']}, set())
      else:
        R.fatal.append('BMC counterexample for %d threads did not reproduce on the real code: %r' % (n, rp))
    if n == 2:
      # explicit-state cross-check + counts for the evidence (same-key and different-key requests)
      for inp in ({'key0': 1, 'sub0': 1, 'key1': 1, 'sub1': 1}, {'key0': 1, 'sub0': 1, 'key1': 2, 'sub1': 1},
                  {'key0': 1, 'sub0': 1, 'key1': 1, 'sub1': 2}):
        ex = bmc.explore(m, inp, violation(m, info))
        states += ex['states']
        transitions += ex['transitions']
        if ex['bad_final_states'] and r['result'] == 'unsat':
          R.fatal.append('explicit exploration found a bad state that the BMC missed: %r' % (inp,))
  out.update({'states': states, 'transitions': transitions, 'traces_validated': validated, 'summary': summary,
              'wall_s': round(time.time() - t0, 1)})
  return out
