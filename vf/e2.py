"""Engine E2 (xh-path): path-exhaustive instrumented execution vs. the real analyses.

  source --ast.parse--> A --REAL cfg.build / qual_names / activity /
                             reaching_definitions / reaching_fndefs / liveness--> annotations on A
  instrumented copy of A (same node numbering): every branch test is replaced by
  an opaque decision D(), every CFG-owning node gets a probe, reads/writes are
  logged. CPython executes the copy: it is the oracle for which statement follows
  which (incl. finally routing), which variable is bound, who wrote what is read.

  harness(d0..dK-1: bool): run with those decisions; post: the recorded trace
  satisfies the property w.r.t. the annotations. CrossHair/z3 enumerates ALL
  decision vectors of length <= K ("Confirmed over all paths").
"""
import ast
import copy
import logging
import os
import symtable
import sys
import time
import traceback


class OutOfDecisions(BaseException):
  pass


class Implicit(BaseException):
  """An implicit exception (unbound read, ...) ended the checked part of the run."""


# ---------------------------------------------------------------------------
# numbering and scopes
# ---------------------------------------------------------------------------

def number(tree):
  ids = {}
  nodes = []
  for n in ast.walk(tree):
    ids[n] = len(nodes)
    nodes.append(n)
  return ids, nodes


class FnInfo(object):

  def __init__(self, node, fid, parent):
    self.node = node
    self.fid = fid
    self.parent = parent
    self.locals = set()
    self.params = set()
    self.free = set()
    self.globals_ = set()
    self.nonlocals = set()
    self.cells = set()
    self.implicit_globals = set()


def scopes_of(src, tree, ids):
  """CPython's own binding rules (symtable) for every FunctionDef of the tree."""
  top = symtable.symtable(src, '<e2>', 'exec')
  infos = {}

  def walk(tab, fnode, parent):
    fi = FnInfo(fnode, ids[fnode], parent)
    for s in tab.get_symbols():
      n = s.get_name()
      if s.is_parameter():
        fi.params.add(n)
      if s.is_declared_global():
        fi.globals_.add(n)
      elif s.is_nonlocal():
        fi.nonlocals.add(n)
      elif s.is_local():
        fi.locals.add(n)
      elif s.is_free():
        fi.free.add(n)
      elif s.is_global():
        fi.implicit_globals.add(n)
    # CPython >= 3.12 inlines list/set/dict comprehensions (PEP 709) and its symtable then lists
    # their iteration variables as locals of the enclosing function; by the language semantics
    # they are local to the comprehension, so they are not expected among the function's names
    fi.locals -= _comprehension_only_names(fnode)
    infos[fnode] = fi
    # child function tables in source order match FunctionDef nodes in source order
    kids = [c for c in tab.get_children() if c.get_type() == 'function' and c.get_name() != 'lambda'
            and not c.get_name().startswith('<') and c.get_name() not in ('listcomp', 'genexpr', 'setcomp', 'dictcomp')]
    fdefs = [n for n in _direct_function_defs(fnode)]
    fdefs.sort(key=lambda n: (n.lineno, n.col_offset))
    kids.sort(key=lambda c: c.get_lineno())
    for c, n in zip(kids, fdefs):
      walk(c, n, fi)

  tops = [n for n in tree.body if isinstance(n, ast.FunctionDef)]
  tabs = [c for c in top.get_children() if c.get_type() == 'function']
  tops.sort(key=lambda n: n.lineno)
  tabs.sort(key=lambda c: c.get_lineno())
  for c, n in zip(tabs, tops):
    walk(c, n, None)
  return infos


def _comprehension_only_names(fnode):
  """Names bound in fnode's own scope ONLY as iteration variables of comprehensions."""
  comp, other = set(), set()

  def rec(n, in_comp):
    for ch in ast.iter_child_nodes(n):
      if isinstance(ch, (ast.FunctionDef, ast.AsyncFunctionDef, ast.ClassDef)):
        other.add(ch.name)
        continue
      if isinstance(ch, ast.Lambda):
        continue
      if isinstance(ch, (ast.ListComp, ast.SetComp, ast.DictComp, ast.GeneratorExp)):
        rec(ch, True)
        continue
      if isinstance(ch, ast.Name) and isinstance(ch.ctx, (ast.Store, ast.Del)):
        (comp if in_comp else other).add(ch.id)
      elif isinstance(ch, ast.NamedExpr) and isinstance(ch.target, ast.Name):
        other.add(ch.target.id)        # walrus binds in the enclosing function even inside a comprehension
        rec(ch.value, in_comp)
        continue
      elif isinstance(ch, ast.ExceptHandler) and ch.name:
        other.add(ch.name)
      elif isinstance(ch, ast.alias):
        other.add((ch.asname or ch.name).split('.')[0])
      rec(ch, in_comp)

  rec(fnode, False)
  other |= set(a.arg for a in ast.walk(fnode.args) if isinstance(a, ast.arg))
  return comp - other


def _direct_function_defs(fnode):
  out = []

  def rec(n):
    for ch in ast.iter_child_nodes(n):
      if isinstance(ch, ast.FunctionDef):
        out.append(ch)
      elif isinstance(ch, (ast.Lambda, ast.ClassDef)):
        continue
      else:
        rec(ch)

  rec(fnode)
  return out


# ---------------------------------------------------------------------------
# instrumentation
# ---------------------------------------------------------------------------

def _call(name, *args):
  return ast.Call(func=ast.Attribute(value=ast.Name(id='_rt', ctx=ast.Load()), attr=name, ctx=ast.Load()),
                  args=list(args), keywords=[])


def _c(v):
  return ast.Constant(value=v)


def _lam(expr):
  return ast.Lambda(args=ast.arguments(posonlyargs=[], args=[], vararg=None, kwonlyargs=[],
                                       kw_defaults=[], kwarg=None, defaults=[]), body=expr)


def _store_names(node):
  """Names bound by this statement in the CURRENT scope (comprehension targets, lambda
  arguments and nested function bodies bind in their own scopes)."""
  out = []

  def rec(n):
    if isinstance(n, (ast.ListComp, ast.SetComp, ast.DictComp, ast.GeneratorExp, ast.Lambda)):
      return
    if isinstance(n, ast.Name) and isinstance(n.ctx, (ast.Store,)):
      out.append(n.id)
    for ch in ast.iter_child_nodes(n):
      if isinstance(ch, (ast.FunctionDef, ast.ClassDef)) and ch is not node:
        continue
      rec(ch)

  rec(node)
  return out


class _Reads(ast.NodeTransformer):
  """Wraps Name loads of function-scope variables: x -> _rt.r(occ, 'x', lambda: x)."""

  def __init__(self, ids, tracked):
    self.ids = ids
    self.tracked = tracked

  def visit_Name(self, node):
    if isinstance(node.ctx, ast.Load) and node.id in self.tracked and node in self.ids:
      return _call('r', _c(self.ids[node]), _c(node.id), _lam(ast.Name(id=node.id, ctx=ast.Load())))
    return node

  def visit_Lambda(self, node):
    return node          # lambdas are separate graphs; not instrumented

  def visit_ListComp(self, node):
    # only the FIRST iterable of a comprehension is evaluated in the enclosing scope
    if node.generators:
      node.generators[0].iter = self.visit(node.generators[0].iter)
    return node

  visit_SetComp = visit_DictComp = visit_GeneratorExp = visit_ListComp


class Instrumenter(object):

  def __init__(self, ids, infos):
    self.ids = ids
    self.infos = infos

  def expr(self, e, fi):
    if e is None:
      return None
    tracked = fi.locals | fi.params | fi.free | fi.nonlocals
    return _Reads(self.ids, tracked).visit(e)

  def stmt_exprs(self, s, fi):
    """Wrap reads in all expression fields of a simple statement (in place)."""
    tracked = fi.locals | fi.params | fi.free | fi.nonlocals
    rd = _Reads(self.ids, tracked)
    for field, val in list(ast.iter_fields(s)):
      if isinstance(val, ast.expr):
        setattr(s, field, rd.visit(val))
      elif isinstance(val, list):
        setattr(s, field, [rd.visit(v) if isinstance(v, ast.expr) else v for v in val])
    return s

  def P(self, node):
    return ast.Expr(_call('p', _c(self.ids[node])))

  def W(self, node, names):
    return ast.Expr(_call('w', _c(self.ids[node]), _c(tuple(names))))

  def C(self, node):
    return ast.Expr(_call('c', _c(self.ids[node]), ast.Call(func=ast.Name(id='locals', ctx=ast.Load()),
                                                           args=[], keywords=[])))

  def block(self, stmts, fi):
    out = []
    for s in stmts:
      out.extend(self.stmt(s, fi))
    return out or [ast.Pass()]

  def function(self, node, fi):
    body = [self.P(node.args)] + self.block(node.body, fi)
    wrapped = ast.Try(body=body, handlers=[], orelse=[], finalbody=[ast.Expr(_call('leave'))])
    enter = ast.Expr(_call('enter', _c(fi.fid)))
    new = copy.copy(node)
    new.body = [enter, wrapped]
    new.decorator_list = []
    return new

  def stmt(self, s, fi):
    I = self
    if isinstance(s, ast.FunctionDef):
      inner = I.function(s, I.infos[s])
      # default expressions are evaluated by the def statement, in the defining scope
      a = copy.copy(inner.args)
      a.defaults = [I.expr(d, fi) for d in a.defaults]
      a.kw_defaults = [I.expr(d, fi) if d is not None else None for d in a.kw_defaults]
      inner.args = a
      return [I.P(s), inner, I.W(s, [s.name])]
    if isinstance(s, ast.ClassDef):
      # The class body runs as part of the statement: loads of the enclosing function's
      # variables at class-body level (not inside methods) are reads of this statement.
      # Names the class body binds itself are left alone (class-level lookup differs).
      own = set(_store_names(ast.Module(body=s.body, type_ignores=[])))
      own |= set(n.name for n in s.body if isinstance(n, (ast.FunctionDef, ast.ClassDef)))
      tracked = (fi.locals | fi.params | fi.free | fi.nonlocals) - own
      rd = _Reads(self.ids, tracked)
      new = copy.copy(s)
      new.body = []
      for st in s.body:
        if isinstance(st, (ast.Assign, ast.AugAssign, ast.AnnAssign, ast.Expr)) and getattr(st, 'value', None) is not None:
          st = copy.copy(st)
          st.value = rd.visit(st.value)
        new.body.append(st)
      # decorators, bases and keywords are evaluated in the ENCLOSING scope: names the class
      # body happens to bind as well are still reads of the enclosing function's variables there
      rd_head = _Reads(self.ids, fi.locals | fi.params | fi.free | fi.nonlocals)
      new.bases = [rd_head.visit(b_) for b_ in s.bases]
      new.keywords = [ast.keyword(arg=k_.arg, value=rd_head.visit(k_.value)) for k_ in s.keywords]
      new.decorator_list = [rd_head.visit(d_) for d_ in s.decorator_list]
      return [I.P(s), new, I.W(s, [s.name])]
    if isinstance(s, (ast.Assign, ast.AnnAssign)):
      names = _store_names(s)
      return [I.P(s), I.stmt_exprs(s, fi), I.W(s, names)]
    if isinstance(s, ast.AugAssign):
      pre = []
      if isinstance(s.target, ast.Name):
        pre = [ast.Expr(_call('r', _c(-1 - I.ids[s]), _c(s.target.id),
                              _lam(ast.Name(id=s.target.id, ctx=ast.Load()))))]
      names = _store_names(s)
      s.value = I.expr(s.value, fi)
      return [I.P(s)] + pre + [s, I.W(s, names)]
    if isinstance(s, (ast.Import, ast.ImportFrom)):
      names = [(a.asname or a.name).split('.')[0] for a in s.names]
      return [I.P(s), s, I.W(s, names)]
    if isinstance(s, ast.Delete):
      names = [t.id for t in s.targets if isinstance(t, ast.Name)]
      return [I.P(s), s, ast.Expr(_call('dl', _c(I.ids[s]), _c(tuple(names))))]
    if isinstance(s, ast.Nonlocal):
      return [I.P(s), s, ast.Expr(_call('nl', _c(I.ids[s]), _c(tuple(s.names))))]
    if isinstance(s, ast.Global):
      return [I.P(s), s, ast.Expr(_call('nl', _c(I.ids[s]), _c(tuple(s.names))))]
    if isinstance(s, (ast.Expr, ast.Pass, ast.Assert, ast.Return, ast.Raise)):
      return [I.P(s), I.stmt_exprs(s, fi)]
    if isinstance(s, (ast.Break, ast.Continue)):
      return [I.P(s), s]
    if isinstance(s, ast.If):
      new = ast.If(test=_call('d', _c(I.ids[s.test]), _lam(I.expr(s.test, fi))),
                   body=I.block(s.body, fi), orelse=I.block(s.orelse, fi) if s.orelse else [])
      return [I.C(s), new]
    if isinstance(s, ast.While):
      new = ast.While(test=_call('d', _c(I.ids[s.test]), _lam(I.expr(s.test, fi))),
                      body=I.block(s.body, fi), orelse=I.block(s.orelse, fi) if s.orelse else [])
      return [I.C(s), new]
    if isinstance(s, ast.For):
      arity = len(s.target.elts) if isinstance(s.target, (ast.Tuple, ast.List)) else 0
      tnames = _store_names(s.target)
      body = [I.W(s.iter, tnames)] + I.block(s.body, fi)
      new = ast.For(target=s.target,
                    iter=_call('it', _c(I.ids[s.iter]), _c(arity), _lam(I.expr(s.iter, fi))),
                    body=body, orelse=I.block(s.orelse, fi) if s.orelse else [])
      return [I.C(s), new]
    if isinstance(s, ast.With):
      # `with A as r, B(r):` is `with A as r: with B(r):` - one nested With per item, so
      # that the write of `r` is recorded before the next item's expression reads it
      body = I.block(s.body, fi)
      for it in reversed(s.items):
        item = ast.withitem(
            context_expr=_call('cm', _c(I.ids[it]), _lam(I.expr(it.context_expr, fi))),
            optional_vars=it.optional_vars)
        if it.optional_vars is not None:
          body = [I.W(it, _store_names(it.optional_vars))] + body
        body = [ast.With(items=[item], body=body)]
      return body
    if isinstance(s, ast.Try):
      handlers = []
      for h in s.handlers:
        hb = [ast.Expr(_call('h', _c(I.ids[h])))] + I.block(h.body, fi)
        handlers.append(ast.ExceptHandler(type=h.type, name=h.name, body=hb))
      inner = ast.Try(body=I.block(s.body, fi), handlers=handlers,
                      orelse=I.block(s.orelse, fi) if s.orelse else [], finalbody=[])
      if not s.finalbody:
        if not handlers:
          return [I.C(s)] + inner.body
        return [I.C(s), inner]
      core = [inner] if handlers else inner.body
      # anything escaping body/handlers/else enters the finally exceptionally
      outer = ast.Try(
          body=core,
          handlers=[ast.ExceptHandler(type=ast.Name(id='BaseException', ctx=ast.Load()), name=None,
                                      body=[ast.Expr(_call('xf', _c(I.ids[s]))), ast.Raise(exc=None, cause=None)])],
          orelse=[], finalbody=I.block(s.finalbody, fi))
      return [I.C(s), outer]
    raise NotImplementedError('E2 instrumenter: unsupported statement %s' % type(s).__name__)


# ---------------------------------------------------------------------------
# runtime
# ---------------------------------------------------------------------------

class Runtime(object):

  def __init__(self, decisions):
    self.decisions = list(decisions)
    self.k = 0
    self.events = []          # (kind, activation, payload...)
    self.stack = []
    self.nact = 0
    self.act_fn = {}
    self.act_parent = {}

  @property
  def act(self):
    return self.stack[-1] if self.stack else -1

  def enter(self, fid):
    a = self.nact
    self.nact += 1
    self.act_fn[a] = fid
    self.act_parent[a] = self.act
    self.stack.append(a)
    self.events.append(('enter', a, fid))

  def leave(self):
    a = self.stack.pop()
    et = sys.exc_info()[0]
    self.events.append(('leave', a, None if et is None else et.__name__))

  def p(self, nid):
    self.events.append(('p', self.act, nid))

  def d(self, nid, thunk):
    self.events.append(('p', self.act, nid))
    try:
      thunk()
    except Implicit:
      raise
    except Exception:  # pylint:disable=broad-except
      raise Implicit()
    if self.k >= len(self.decisions):
      raise OutOfDecisions()
    v = self.decisions[self.k]
    self.k += 1
    if v:
      return True
    return False

  def it(self, nid, arity, thunk):
    try:
      thunk()
    except Implicit:
      raise
    except Exception:  # pylint:disable=broad-except
      raise Implicit()
    return self._iter(nid, arity)

  def _iter(self, nid, arity):
    a = self.act
    i = 0
    while True:
      self.events.append(('p', a, nid))
      if self.k >= len(self.decisions):
        raise OutOfDecisions()
      v = self.decisions[self.k]
      self.k += 1
      if not v:
        return
      yield tuple([i] * arity) if arity else i
      i += 1

  def cm(self, nid, thunk):
    self.events.append(('p', self.act, nid))
    try:
      return thunk()
    except Implicit:
      raise
    except Exception:  # pylint:disable=broad-except
      raise Implicit()

  def r(self, occ, name, thunk):
    try:
      v = thunk()
    except NameError:
      self.events.append(('unbound', self.act, occ, name))
      raise Implicit()
    self.events.append(('r', self.act, occ, name))
    return v

  def w(self, nid, names):
    if names:
      self.events.append(('w', self.act, nid, tuple(names)))

  def dl(self, nid, names):
    self.events.append(('dl', self.act, nid, tuple(names)))

  def nl(self, nid, names):
    self.events.append(('nl', self.act, nid, tuple(names)))

  def c(self, nid, loc):
    self.events.append(('c', self.act, nid, frozenset(k for k in loc if not k.startswith('_'))))

  def h(self, nid):
    self.events.append(('h', self.act, nid))

  def xf(self, nid):
    et = sys.exc_info()[0]
    self.events.append(('xf', self.act, nid, None if et is None else et.__name__))


# ---------------------------------------------------------------------------
# analyses (REAL, concrete)
# ---------------------------------------------------------------------------

class MappedDefinition(object):
  """Definition that remembers the CFG node / symbol it was generated for.

  reaching_definitions.Analyzer.visit_node creates definitions inside loops over
  `s` with the CFG node in `node`: both are read from the calling frame."""

  def __init__(self):
    self.param_of = None
    self.directives = {}
    fr = sys._getframe(1)
    loc = fr.f_locals
    if 'node' not in loc or 's' not in loc:
      raise RuntimeError('E2: cannot map Definition to its CFG node (reaching_definitions.Analyzer.visit_node changed shape)')
    self.cfg_node = loc['node']
    self.sym = str(loc['s'])


class Static(object):
  pass


def analyse(src):
  """Runs the real analyses on the program and builds the instrumented copy."""
  from malt.pyct import anno, cfg, qual_names, transformer
  from malt.pyct.static_analysis import activity, liveness, reaching_definitions, reaching_fndefs
  S = Static()
  S.src = src
  tree = ast.parse(src)
  S.ids, S.nodes = number(tree)
  inst_tree = copy.deepcopy(tree)
  inst_ids, _ = number(inst_tree)
  assert len(inst_ids) == len(S.ids)
  S.fdefs = [n for n in S.nodes if isinstance(n, ast.FunctionDef)]
  top = [n for n in tree.body if isinstance(n, ast.FunctionDef) and n.name == 'f'][0]
  S.top = top
  S.infos_orig = scopes_of(src, tree, S.ids)
  inst_infos = scopes_of(src, inst_tree, inst_ids)
  # real analyses on the original tree
  info = transformer.EntityInfo(name='f', source_code=src, source_file='<e2>', future_features=(),
                                namespace={})
  ctx = transformer.Context(info, None, None)
  S.graphs = cfg.build(top)
  node = qual_names.resolve(top)
  node = activity.resolve(node, ctx, None)
  node = reaching_definitions.resolve(node, ctx, S.graphs, MappedDefinition)
  node = reaching_fndefs.resolve(node, ctx, S.graphs)
  node = liveness.resolve(node, ctx, S.graphs)
  S.anno = anno
  # per function: cfg node by ast id, liveness sets
  S.fn = {}
  for fnode, g in S.graphs.items():
    if not isinstance(fnode, ast.FunctionDef):
      continue
    fid = S.ids[fnode]
    by_id = {}
    for an, cn in g.index.items():
      if an in S.ids:
        by_id[S.ids[an]] = cn
    la = liveness.Analyzer(g, True)
    la.visit_reverse()
    S.fn[fid] = {'graph': g, 'by_id': by_id, 'live_in': dict(la.in_), 'live_out': dict(la.out),
                 'node': fnode, 'info': S.infos_orig.get(fnode)}
  # instrumented copy
  inst_top = [n for n in inst_tree.body if isinstance(n, ast.FunctionDef) and n.name == 'f'][0]
  I = Instrumenter(inst_ids, inst_infos)
  new_top = I.function(inst_top, inst_infos[inst_top])
  mod = ast.Module(body=[s for s in inst_tree.body if s is not inst_top] + [new_top], type_ignores=[])
  ast.fix_missing_locations(mod)
  S.inst_source = ast.unparse(mod)
  S.code = compile(mod, '<e2-instrumented>', 'exec')
  return S


def execute(S, decisions):
  """Runs the instrumented program under the given decisions; returns (runtime, how)."""
  from vf import rt as vrt
  rt = Runtime(decisions)
  g = {'_rt': rt}
  g.update((k, getattr(vrt, k)) for k in ('t', 'O', 'CM', 'UErr', 'UErr2', 'LOG'))
  g['__name__'] = 'e2prog'
  del vrt.LOG[:]
  exec(S.code, g)  # pylint:disable=exec-used
  how = 'normal'
  try:
    g['f'](1, 2, True, [1, 2])
  except OutOfDecisions:
    how = 'out_of_decisions'
  except Implicit:
    how = 'implicit'
  except Exception as e:  # pylint:disable=broad-except
    how = 'raised:' + type(e).__name__
  return rt, how


# ---------------------------------------------------------------------------
# property checkers (concrete functions of one recorded trace)
# ---------------------------------------------------------------------------

def _is_raise(S, nid):
  return isinstance(S.nodes[nid], ast.Raise)


def activation_streams(rt):
  acts = {}
  for ev in rt.events:
    acts.setdefault(ev[1], []).append(ev)
  return acts


def _next_statement_nodes(cn):
  """Successors of a CFG node, looking through the nodes malt adds for lambda EXPRESSIONS:
  `h = lambda v: v` is two nodes (the Lambda, then the Assign); creating the function object
  is part of executing the statement and has no event of its own in the trace."""
  out, todo, seen = set(), list(cn.next), set()
  while todo:
    n = todo.pop()
    if id(n) in seen:
      continue
    seen.add(id(n))
    out.add(n)
    if isinstance(n.ast_node, ast.Lambda):
      todo.extend(n.next)
  return out


def check_c05(S, rt, how):
  """Trace is a path of the CFG. Returns list of failure dicts."""
  fails = []
  if how == 'out_of_decisions':
    return fails
  for a, evs in activation_streams(rt).items():
    if a < 0:
      continue
    F = S.fn[rt.act_fn[a]]
    g, by_id = F['graph'], F['by_id']
    prev = None
    exempt = False
    skip_edge = False
    first = True
    last_checked = None
    left = None
    for ev in evs:
      k = ev[0]
      if k == 'xf':
        exempt = True
        prev = None
      elif k == 'h':
        if exempt:
          exempt = False
          skip_edge = True
        elif prev is not None and not (prev.ast_node in S.ids and _is_raise(S, S.ids[prev.ast_node])):
          # a handler entered from a statement that is not an explicit raise: the exception
          # was raised implicitly (by a call or an operation), which the graph does not
          # model and the property exempts; the entry edge is not checked, everything
          # from the handler on is
          skip_edge = True
      elif k == 'leave':
        left = ev[2]
      elif k == 'p':
        nid = ev[2]
        cn = by_id.get(nid)
        if cn is None:
          fails.append({'kind': 'no_cfg_node', 'node': nid, 'text': _txt(S, nid)})
          prev = None
          continue
        if first:
          first = False
          if cn is not g.entry:
            fails.append({'kind': 'entry', 'node': nid, 'text': _txt(S, nid)})
        elif exempt:
          pass
        elif skip_edge:
          skip_edge = False
        elif prev is not None and cn not in _next_statement_nodes(prev):
          fails.append({'kind': 'missing_edge', 'from': _txt(S, S.ids[prev.ast_node]) if prev.ast_node in S.ids else '?',
                        'to': _txt(S, nid), 'from_id': S.ids.get(prev.ast_node), 'to_id': nid})
        if not exempt:
          prev = cn
          last_checked = cn
    # how the activation ended
    if how == 'implicit' or exempt:
      continue
    if left is None and last_checked is not None:
      if last_checked not in g.exit and not (last_checked.ast_node in S.ids and _is_raise(S, S.ids[last_checked.ast_node])):
        fails.append({'kind': 'not_an_exit', 'node': _txt(S, S.ids.get(last_checked.ast_node, -1))})
    elif left is not None and last_checked is not None and left not in ('Implicit', 'OutOfDecisions'):
      an = last_checked.ast_node
      if an in S.ids and _is_raise(S, S.ids[an]):
        if last_checked not in g.error and an not in g.error:
          fails.append({'kind': 'raise_not_in_error', 'node': _txt(S, S.ids[an])})
  return fails


def _txt(S, nid):
  try:
    n = S.nodes[nid]
    if isinstance(n, ast.arguments):
      return 'args'
    return ast.unparse(n).split('\n')[0][:60]
  except Exception:  # pylint:disable=broad-except
    return '#%r' % (nid,)


def c05_side_conditions(S):
  """Concrete well-formedness facts (no quantifier left; reported as such)."""
  bad = []
  for fid, F in S.fn.items():
    g = F['graph']
    nodes = list(g.index.values())
    for n in nodes:
      for m in n.next:
        if n not in m.prev:
          bad.append('next/prev not mirrored: %s -> %s' % (n, m))
      for m in n.prev:
        if n not in m.next:
          bad.append('prev/next not mirrored: %s <- %s' % (n, m))
    if len(g.entry.prev) != 0:
      bad.append('entry has predecessors')
    # statement edge sets recomputed from node ownership
    owner = {}
    for an, cn in g.index.items():
      owner[cn] = an
    for stmt, nxt in g.stmt_next.items():
      inside = set(id(x) for x in ast.walk(stmt))
      owned = [cn for cn, an in owner.items() if id(an) in inside]
      want = set()
      for cn in owned:
        for m in cn.next:
          if id(owner[m]) not in inside:
            want.add(m)
      if set(nxt) != want:
        bad.append('stmt_next of %r: has %s, recomputed %s' % (
            ast.unparse(stmt).split('\n')[0][:40], sorted(map(str, nxt)), sorted(map(str, want))))
    for stmt, prv in g.stmt_prev.items():
      inside = set(id(x) for x in ast.walk(stmt))
      owned = [cn for cn, an in owner.items() if id(an) in inside]
      want = set()
      for cn in owned:
        for m in cn.prev:
          if id(owner[m]) not in inside:
            want.add(m)
      if set(prv) != want:
        bad.append('stmt_prev of %r: has %s, recomputed %s' % (
            ast.unparse(stmt).split('\n')[0][:40], sorted(map(str, prv)), sorted(map(str, want))))
  return bad


def _own_stream(S, rt, a):
  """Events of activation a, plus reads/writes by nested activations of variables
  owned by a (closure accesses count at the calling statement)."""
  F = S.fn[rt.act_fn[a]]
  fi = F['info']
  own = fi.locals | fi.params
  out = []
  for ev in rt.events:
    ea = ev[1]
    if ea == a:
      out.append(ev)
    elif ev[0] in ('r', 'w', 'dl') and _descends(rt, ea, a):
      # which activation owns the name?
      names = (ev[3],) if ev[0] == 'r' else ev[3]
      for nm in names:
        if nm in own and _owner(S, rt, ea, nm) == a:
          out.append((ev[0] + '*', a, ev[2], nm if ev[0] == 'r' else (nm,)))
  return out, own


def _descends(rt, ea, a):
  while ea >= 0:
    ea = rt.act_parent.get(ea, -1)
    if ea == a:
      return True
  return False


def _owner(S, rt, ea, name):
  """Activation that owns `name` as seen from activation ea (lexical chain ~ call chain here)."""
  cur = ea
  while cur >= 0:
    fi = S.fn[rt.act_fn[cur]]['info']
    if name in (fi.locals | fi.params) and name not in fi.nonlocals:
      return cur
    # walk to the nearest live activation of the lexically enclosing function
    parent_fn = fi.parent
    nxt = rt.act_parent.get(cur, -1)
    while nxt >= 0 and parent_fn is not None and rt.act_fn[nxt] != parent_fn.fid:
      nxt = rt.act_parent.get(nxt, -1)
    cur = nxt
  return -1


def check_c06(S, rt, how):
  """Reaching definitions / defined-on-entry soundness on one trace."""
  anno = S.anno
  fails = []
  for a in sorted(set(ev[1] for ev in rt.events if ev[1] >= 0)):
    F = S.fn[rt.act_fn[a]]
    fi = F['info']
    by_id = F['by_id']
    own = fi.locals | fi.params
    writer = {}
    for p in fi.params:
      writer[p] = S.ids[F['node'].args]
    exempt = False
    cur_stmt = None
    for ev in rt.events:
      if ev[1] != a:
        continue
      k = ev[0]
      if k == 'p':
        cur_stmt = ev[2]
      if k == 'xf':
        # exceptional propagation through a finally block: unmodelled, and the state the
        # handler that eventually catches it sees is not described by the graph either:
        # the rest of this activation is outside the claim (as in check_c07)
        break
      elif k == 'h':
        if not exempt and cur_stmt is not None and not _is_raise(S, cur_stmt):
          # handler entered from a statement that is not an explicit raise: an implicit
          # exception (raised by a call or an operation), which the graph does not model;
          # the rest of this activation is outside the claim
          break
        exempt = False
      if exempt:
        continue
      if k == 'w':
        for nm in ev[3]:
          writer[nm] = ev[2]
      elif k == 'nl':
        for nm in ev[3]:
          writer[nm] = ev[2]
      elif k == 'dl':
        for nm in ev[3]:
          writer.pop(nm, None)
      elif k == 'r':
        occ, nm = ev[2], ev[3]
        if occ < 0:
          continue
        node = S.nodes[occ]
        defs = anno.getanno(node, anno.Static.DEFINITIONS, None)
        if defs is None:
          continue
        if nm in fi.free:
          if len(defs) == 0:
            fails.append({'kind': 'free_variable_read_in_nested_function', 'name': nm,
                          'read': _txt(S, occ), 'fn': F['node'].name})
          continue
        if nm not in own and nm not in fi.nonlocals:
          continue
        if nm not in writer:
          continue
        wnode = by_id.get(writer[nm])
        dn = set(d.cfg_node for d in defs if getattr(d, 'sym', nm) == nm)
        if wnode is None or wnode not in dn:
          fails.append({'kind': 'actual_definition_not_reaching', 'name': nm, 'read_occ': occ,
                        'read': _txt(S, occ), 'writer': _txt(S, writer[nm]),
                        'reported': sorted(str(d.cfg_node) for d in defs)})
      elif k == 'c':
        stmt = S.nodes[ev[2]]
        din = anno.getanno(stmt, anno.Static.DEFINED_VARS_IN, None)
        if din is None:
          continue
        din = set(str(q) for q in din)
        bound = set(n for n in ev[3] if n in own)
        missing = bound - din
        # names bound by except clauses are excluded by the property
        missing = set(m for m in missing if m in writer)
        if missing:
          fails.append({'kind': 'bound_but_not_defined_in', 'names': sorted(missing),
                        'stmt': _txt(S, ev[2])})
  return fails


def c06_side_conditions(S):
  """out == gen | (in - kill), in == U out(pred) on a fresh run of the real Analyzer."""
  from malt.pyct import anno
  from malt.pyct.static_analysis import reaching_definitions
  bad = []
  for fid, F in S.fn.items():
    an = reaching_definitions.Analyzer(F['graph'], MappedDefinition)
    an.visit_forward()
    for n in F['graph'].index.values():
      din = {}
      for p in n.prev:
        for s, ds in an.out[p].value.items():
          din.setdefault(s, set()).update(ds)
      got_in = dict((s, set(ds)) for s, ds in an.in_[n].value.items())
      if din != got_in:
        bad.append('in != U out(pred) at %s' % n)
      if anno.hasanno(n.ast_node, anno.Static.SCOPE):
        sc = anno.getanno(n.ast_node, anno.Static.SCOPE)
        kill = sc.modified | sc.deleted
        exp = dict((s, set(ds)) for s, ds in got_in.items() if s not in kill)
        for s, ds in an.gen_map.get(n, reaching_definitions._NodeState()).value.items():
          exp.setdefault(s, set()).update(ds)
        got = dict((s, set(ds)) for s, ds in an.out[n].value.items())
        if exp != got:
          bad.append('out != gen | (in - kill) at %s' % n)
  return bad


def check_c07(S, rt, how):
  """Liveness soundness: anything read later before being overwritten is live."""
  anno = S.anno
  fails = []
  for a in sorted(set(ev[1] for ev in rt.events if ev[1] >= 0)):
    F = S.fn[rt.act_fn[a]]
    by_id = F['by_id']
    stream, own = _own_stream(S, rt, a)
    # truncate at the first exceptional finally entry (outside the claim)
    cut = len(stream)
    cur_stmt = None
    for i, ev in enumerate(stream):
      if ev[0] == 'p':
        cur_stmt = ev[2]
      if ev[0] == 'xf':
        cut = i
        break
      if ev[0] == 'h' and cur_stmt is not None and not _is_raise(S, cur_stmt):
        cut = i           # implicit exception (see check_c06): outside the claim from here on
        break
    stream = stream[:cut]
    needed = set()
    nxt_node = None     # p event that follows (in time) the position being processed
    pend = []           # failures are collected then reversed
    for ev in reversed(stream):
      k = ev[0]
      if k in ('r', 'r*'):
        nm = ev[3]
        if nm in own:
          needed.add(nm)
      elif k in ('w', 'w*', 'dl', 'dl*'):
        for nm in ev[3]:
          needed.discard(nm)
      elif k == 'p':
        nid = ev[2]
        cn = by_id.get(nid)
        # `needed` now = variables whose value at the START of this statement instance
        # is read later: they must be live_in here and live_out of the predecessor.
        if cn is not None:
          lin = set(str(q) for q in F['live_in'][cn])
          miss = set(needed) - lin
          if miss:
            pend.append({'kind': 'read_later_but_not_live_in', 'names': sorted(miss), 'at': _txt(S, nid),
                         'at_id': nid, 'line': getattr(S.nodes[nid], 'lineno', 0)})
        nxt_node = nid
    # forward pass for live_out and block-level annotations
    plist = [(i, ev) for i, ev in enumerate(stream) if ev[0] == 'p']
    # needed_after[i]: recompute backwards once more, recording at statement ends
    needed = set()
    after = {}
    for i in range(len(stream) - 1, -1, -1):
      ev = stream[i]
      k = ev[0]
      if k in ('r', 'r*'):
        if ev[3] in own:
          needed.add(ev[3])
      elif k in ('w', 'w*', 'dl', 'dl*'):
        for nm in ev[3]:
          needed.discard(nm)
      after[i] = set(needed)
    for j, (i, ev) in enumerate(plist):
      cn = by_id.get(ev[2])
      if cn is None or j + 1 >= len(plist):
        continue
      i2, ev2 = plist[j + 1]
      # value held when this statement finishes = state right before the next p event
      need_out = set(after[i2])
      # reads belonging to the next statement happen after its p event: after[i2] is the
      # set needed at the next statement's start
      lout = set(str(q) for q in F['live_out'][cn])
      miss = need_out - lout
      if miss:
        pend.append({'kind': 'read_later_but_not_live_out', 'names': sorted(miss), 'at': _txt(S, ev[2]),
                     'at_id': ev[2], 'line': getattr(S.nodes[ev[2]], 'lineno', 0)})
      # block level: statements left / entered by this transition
      a_node, b_node = S.nodes[ev[2]], S.nodes[ev2[2]]
      for stmt in F.setdefault('blocks', _blocks(F['node'])):
        ins = F.setdefault('inside', {}).setdefault(id(stmt), set(id(x) for x in ast.walk(stmt)))
        ina, inb = id(a_node) in ins, id(b_node) in ins
        if ina and not inb:
          lo = anno.getanno(stmt, anno.Static.LIVE_VARS_OUT, None)
          if lo is not None:
            miss = need_out - set(str(q) for q in lo)
            if miss:
              pend.append({'kind': 'read_later_but_not_in_LIVE_VARS_OUT', 'names': sorted(miss),
                           'stmt': ast.unparse(stmt).split('\n')[0][:50]})
        elif inb and not ina:
          li = anno.getanno(stmt, anno.Static.LIVE_VARS_IN, None)
          if li is not None:
            miss = need_out - set(str(q) for q in li)
            if miss:
              pend.append({'kind': 'read_later_but_not_in_LIVE_VARS_IN', 'names': sorted(miss),
                           'stmt': ast.unparse(stmt).split('\n')[0][:50]})
    fails.extend(pend)
  return fails


def _blocks(fnode):
  out = []
  for n in ast.walk(fnode):
    if isinstance(n, (ast.If, ast.For, ast.While, ast.Try, ast.With)) :
      out.append(n)
  return out


def c07_side_conditions(S):
  """live_in == gen | (live_out - kill) | closures(reaching fn defs); live_out == U live_in(succ)."""
  from malt.pyct import anno
  from malt.pyct.static_analysis import annos
  bad = []
  for fid, F in S.fn.items():
    g = F['graph']
    for n in g.index.values():
      lo = set()
      for m in n.next:
        lo |= set(F['live_in'][m])
      if lo != set(F['live_out'][n]):
        bad.append('live_out != U live_in(succ) at %s' % n)
      if anno.hasanno(n.ast_node, anno.Static.SCOPE):
        sc = anno.getanno(n.ast_node, anno.Static.SCOPE)
        exp = set(sc.read) | (lo - (sc.modified | sc.deleted))
        for fn_node in anno.getanno(n.ast_node, anno.Static.DEFINED_FNS_IN, ()):
          if isinstance(fn_node, ast.Lambda):
            continue
          fs = anno.getanno(fn_node, annos.NodeAnno.ARGS_AND_BODY_SCOPE)
          exp |= set(fs.read) - set(fs.bound)
        if not exp <= set(F['live_in'][n]):
          bad.append('live_in misses %s at %s' % (sorted(map(str, exp - set(F['live_in'][n]))), n))
  return bad


def check_c08(S, rt, how):
  """Per executed statement: names actually read / rebound / deleted are in its scope sets."""
  anno = S.anno
  fails = []
  for a in sorted(set(ev[1] for ev in rt.events if ev[1] >= 0)):
    F = S.fn[rt.act_fn[a]]
    fi = F['info']
    tracked = fi.locals | fi.params | fi.free | fi.nonlocals
    cur = None
    for ev in rt.events:
      if ev[1] != a:
        continue
      k = ev[0]
      if k == 'p':
        cur = ev[2]
        continue
      if cur is None:
        continue
      node = S.nodes[cur]
      if not anno.hasanno(node, anno.Static.SCOPE):
        continue
      sc = anno.getanno(node, anno.Static.SCOPE)
      if k == 'r' and ev[3] in tracked:
        # the read must belong to this statement: occurrence is lexically inside it
        occ = ev[2]
        src_node = S.nodes[occ] if occ >= 0 else None
        if src_node is not None and id(src_node) not in _ids_inside(S, cur):
          continue
        if ev[3] not in set(str(q) for q in sc.read):
          fails.append({'kind': 'actual_read_not_in_read_set', 'name': ev[3], 'stmt': _txt(S, cur)})
      elif k == 'w':
        wn = S.nodes[ev[2]]
        if not anno.hasanno(wn, anno.Static.SCOPE):
          continue
        sc = anno.getanno(wn, anno.Static.SCOPE)
        cur = ev[2]
        mod = set(str(q) for q in (sc.modified | sc.bound))
        for nm in ev[3]:
          if nm not in mod:
            fails.append({'kind': 'actual_write_not_in_modified_set', 'name': nm, 'stmt': _txt(S, cur)})
      elif k == 'dl' and ev[2] == cur:
        dele = set(str(q) for q in (sc.deleted | sc.modified))
        for nm in ev[3]:
          if nm not in dele:
            fails.append({'kind': 'actual_delete_not_in_deleted_set', 'name': nm, 'stmt': _txt(S, cur)})
          # "A target occurring in a del statement is also considered bound" (execution model,
          # binding of names): the block that deletes a name owns it like one that assigns it
          if nm not in set(str(q) for q in sc.bound):
            fails.append({'kind': 'deleted_name_not_bound', 'name': nm, 'stmt': _txt(S, cur)})
  return fails


_INSIDE = {}


def _ids_inside(S, nid):
  key = (id(S), nid)
  if key not in _INSIDE:
    _INSIDE[key] = set(id(x) for x in ast.walk(S.nodes[nid]))
  return _INSIDE[key]


def c08_side_conditions(S):
  """First conjunct (concrete comparison): malt's per-function name classes vs CPython's symtable."""
  from malt.pyct import anno
  from malt.pyct.static_analysis import annos
  bad = []
  for fid, F in S.fn.items():
    fi = F['info']
    node = F['node']
    if fi is None:
      continue      # methods of a class defined inside f: class bodies are not functions, not compared
    sc = anno.getanno(node, annos.NodeAnno.ARGS_AND_BODY_SCOPE)
    exc_names = set(h.name for h in ast.walk(node) if isinstance(h, ast.ExceptHandler) and h.name)
    names = lambda qs: set(str(q) for q in qs if not q.is_composite())
    params = set(str(q) for q in anno.getanno(node.args, anno.Static.SCOPE).params.keys())
    if params != fi.params:
      bad.append('%s: params %s, CPython %s' % (node.name, sorted(params), sorted(fi.params)))
    if names(sc.globals) != fi.globals_:
      bad.append('%s: globals %s, CPython %s' % (node.name, sorted(names(sc.globals)), sorted(fi.globals_)))
    if names(sc.nonlocals) != fi.nonlocals:
      bad.append('%s: nonlocals %s, CPython %s' % (node.name, sorted(names(sc.nonlocals)), sorted(fi.nonlocals)))
    # free variables: names read but not bound in the function (CPython: free + implicit globals)
    if not any(isinstance(n, (ast.ClassDef, ast.Lambda, ast.ListComp, ast.SetComp, ast.DictComp, ast.GeneratorExp))
               for n in ast.walk(node)):
      # compared on names that are local to some enclosing function (globals and builtins
      # are "free" for malt but not closure variables for CPython)
      cands = set()
      anc = fi.parent
      while anc is not None:
        cands |= anc.locals | anc.params
        anc = anc.parent
      # (a name the function declares global is tracked in sc.globals; its reads are not
      # closure reads even if an enclosing function has a local of the same name)
      mfree = ((names(sc.read) - names(sc.bound)) & cands) - names(sc.globals)
      cfree = fi.free - exc_names
      if mfree - exc_names != cfree:
        bad.append('%s: free variables %s, CPython %s' % (node.name, sorted(mfree - exc_names), sorted(cfree)))
    bound = names(sc.bound) - names(sc.globals) - names(sc.nonlocals)
    want = (fi.locals | fi.params) - exc_names
    if bound - exc_names != want:
      bad.append('%s: bound locals %s, CPython %s' % (node.name, sorted(bound - exc_names), sorted(want)))
  return bad


CHECKERS = {'C05': check_c05, 'C06': check_c06, 'C07': check_c07, 'C08': check_c08}
SIDE = {'C05': c05_side_conditions, 'C06': c06_side_conditions, 'C07': c07_side_conditions,
        'C08': c08_side_conditions}


# ---------------------------------------------------------------------------
# harness plumbing
# ---------------------------------------------------------------------------

LAST = {}


TOLERATE = {'fn': None, 'seen': []}


def run_and_check(S, props, decisions):
  """One path: execute (traced: forks at decisions), then check the concrete trace natively.

  Failures that the property's classifier maps to a LISTED known finding are
  recorded (TOLERATE['seen']) but do not falsify the postcondition, so that the
  exploration of the remaining paths continues and any OTHER failure is found."""
  rt, how = execute(S, decisions)
  from crosshair.tracers import NoTracing
  with NoTracing():
    ok = True
    for p in props:
      fails = CHECKERS[p](S, rt, how)
      real = []
      for f in fails:
        if TOLERATE['fn'] is not None and TOLERATE['fn'](p, f):
          if len(TOLERATE['seen']) < 40:
            TOLERATE['seen'].append((p, [bool(d) for d in rt.decisions[:rt.k]], how, f))
        else:
          real.append(f)
      if real:
        LAST[p] = {'decisions': [bool(d) for d in rt.decisions[:rt.k]], 'how': how, 'fails': real[:6]}
        ok = False
    LAST['reached_k'] = max(LAST.get('reached_k', 0), rt.k)
    return ok


def harness_source(K):
  params = ', '.join('d%d: bool' % i for i in range(K))
  names = ', '.join('d%d' % i for i in range(K))
  return ('''# generated by vf.e2
from vf import e2 as _e2
SRC = %%r
PROPS = %%r
S = _e2.analyse(SRC)

def check(%s) -> bool:
  """
  post: _
  """
  return _e2.run_and_check(S, PROPS, [%s])

def twin(%s) -> bool:
  """
  post: _
  """
  _e2.run_and_check(S, PROPS, [%s])
  return not (%s)
''' % (params, names, params, names, ' and '.join('d%d' % i for i in range(min(K, 3)))))


def work(payload):
  """One E2 obligation: program x property set x K decisions."""
  logging.disable(logging.WARNING)
  from vf import e1, xh
  prog, props, K = payload['prog'], payload['props'], payload['K']
  res = {'name': prog['name'], 'props': props, 'K': K}
  src = harness_source(K) % (prog['src'], props)
  try:
    mod, _ = e1.load_module(src, payload['tmpdir'], 'e2')
  except Exception as e:  # pylint:disable=broad-except
    tb = traceback.extract_tb(e.__traceback__)
    inner = [fr for fr in tb if '/malt/' in fr.filename]
    if inner and not isinstance(e, NotImplementedError):
      # the REAL analysis crashed on an in-class program: that is a violation, not a harness problem
      res.update(verdict='refuted', kind='analysis_crash', cex=[[], {}],
                 fails={p: {'decisions': [], 'how': 'analysis_crash',
                            'fails': [{'kind': 'analysis_crash', 'where': '%s:%d %s' % (
                                inner[-1].filename.split('/malt/')[-1], inner[-1].lineno, inner[-1].name),
                                       'error': '%s: %s' % (type(e).__name__, str(e)[:200])}]} for p in props},
                 detail='analysis crashed: %s' % type(e).__name__)
      return res
    res.update(verdict='error', detail='analysis/instrumentation failed: %r\n%s' % (e, traceback.format_exc()[-2500:]))
    return res
  S = mod.S
  res['side'] = {}
  for p in props:
    try:
      res['side'][p] = SIDE[p](S)[:5]
    except Exception as e:  # pylint:disable=broad-except
      res['side'][p] = ['side condition check crashed: %r' % (e,)]
  LAST.clear()
  TOLERATE['seen'] = []
  TOLERATE['fn'] = None
  if payload.get('classifier') and payload.get('known_patterns'):
    import importlib
    from vf import gen as _gen
    cmod, cfn = payload['classifier'].split(':')
    classify = getattr(importlib.import_module(cmod), cfn)
    pobj = _gen.Prog(prog['name'], prog['src'], prog.get('tags', ()))
    known = set(payload['known_patterns'])
    TOLERATE['fn'] = lambda p, f: bool(set(classify(pobj, f)) & known)
  r = xh.decide(mod.check, payload.get('per_condition_timeout', 20.0), payload.get('per_path_timeout', 5.0))
  res.update(r)
  res['tolerated'] = list(TOLERATE['seen'])
  res['reached_k'] = LAST.get('reached_k', 0)
  if r['verdict'] == 'refuted':
    args, kwargs = r['cex']
    LAST.clear()
    try:
      ok = mod.check(*args, **kwargs)
    except Exception as e:  # pylint:disable=broad-except
      ok = False
      res['replay_exc'] = repr(e)
    if ok:
      res.update(verdict='error', detail='counterexample does not reproduce natively: ' + r['detail'])
    else:
      res['fails'] = dict((p, LAST[p]) for p in props if p in LAST)
  return res


def replay(obj):
  """Replay file: {engine:'e2', program, props, decisions}."""
  logging.disable(logging.WARNING)
  try:
    S = analyse(obj['program'])
  except Exception as e:  # pylint:disable=broad-except
    print('program   :\n' + obj['program'])
    print('the real analysis crashed: %s: %s' % (type(e).__name__, e))
    return 1
  rt, how = execute(S, obj['decisions'])
  print('property  :', obj.get('property'))
  print('program   :\n' + obj['program'])
  print('decisions :', obj['decisions'], '->', how)
  bad = False
  for p in obj['props']:
    fails = CHECKERS[p](S, rt, how)
    for f in fails[:8]:
      print('%s fails  :' % p, f)
    bad = bad or bool(fails)
  if obj.get('side_only'):
    for p in obj['props']:
      for b in SIDE[p](S):
        print('%s side   :' % p, b)
        bad = True
  return 1 if bad else 0
