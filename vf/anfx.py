"""Applies the REAL anf.transform to a function and compiles the result."""
import ast
import textwrap

from malt.pyct import parser
from malt.pyct import transformer
from malt.pyct.common_transformers import anf


def config(name):
  A = anf
  P = anf.ASTEdgePattern
  if name == 'default':
    return None
  if name == 'replace_all':
    return [(A.ANY, A.REPLACE)]
  if name == 'call_args_only':
    return [(P(ast.Call, 'args', A.ANY), A.REPLACE), (P(ast.Call, 'keywords', A.ANY), A.REPLACE), (A.ANY, A.LEAVE)]
  if name == 'call_args_that_are_calls':
    return [(P(ast.Call, 'args', ast.Call), A.REPLACE)]
  if name == 'binop_only':
    return [(P(A.ANY, A.ANY, (ast.Constant, ast.Name)), A.LEAVE), (P(ast.BinOp, A.ANY, A.ANY), A.REPLACE),
            (P(ast.UnaryOp, A.ANY, A.ANY), A.REPLACE), (A.ANY, A.LEAVE)]
  if name == 'calls_everywhere':
    return [(P(A.ANY, A.ANY, ast.Call), A.REPLACE), (A.ANY, A.LEAVE)]
  if name == 'no_subscript_no_attr':
    return [(P(A.ANY, A.ANY, (ast.Constant, ast.Name, ast.Subscript, ast.Attribute)), A.LEAVE),
            (P(A.ANY, A.ANY, ast.expr), A.REPLACE)]
  raise KeyError(name)


CONFIGS = ['default', 'replace_all', 'call_args_only', 'call_args_that_are_calls', 'binop_only', 'calls_everywhere', 'no_subscript_no_attr']


def transform_source(src_fn, cfg):
  """Returns (new_source, output_tree). Raises ValueError if the transformer rejects."""
  node, source = parser.parse_entity(src_fn, ())
  info = transformer.EntityInfo(name=src_fn.__name__, source_code=source, source_file='<anf>',
                                future_features=(), namespace={})
  ctx = transformer.Context(info, None, None)
  out = anf.transform(node, ctx, config(cfg))
  return parser.unparse(out, include_encoding_marker=False), out


def convert(f, cfg):
  new_src, _ = transform_source(f, cfg)
  ns = dict(f.__globals__)
  exec(compile(new_src, '<anf-output %s>' % f.__name__, 'exec'), ns)  # pylint:disable=exec-used
  g = ns[f.__name__]
  # the output must keep resolving module globals dynamically: share the dict
  import types
  return types.FunctionType(g.__code__, f.__globals__, g.__name__, g.__defaults__, g.__closure__)


def shape_violations(f, cfg):
  """Concrete side condition: positions the configuration asks to be named hold a
  trivial node afterwards; temporaries are pairwise distinct."""
  new_src, out = transform_source(f, cfg)
  out = ast.parse(new_src)       # fresh, clean tree
  info = transformer.EntityInfo(name='x', source_code='', source_file='', future_features=(), namespace={})
  tr = anf.AnfTransformer(transformer.Context(info, None, None), config(cfg))
  bad = []
  STRICT_EXPR = (ast.BinOp, ast.UnaryOp, ast.Compare, ast.Call, ast.Attribute, ast.Subscript,
                 ast.List, ast.Tuple, ast.Dict, ast.Set)
  STRICT_STMT = (ast.Return, ast.Raise)   # Expr/Assign/AugAssign/Delete keep their direct child

  def children(node, parent, field):
    for fld in node._fields:
      v = getattr(node, fld, None)
      items = v if isinstance(v, list) else [v]
      for it in items:
        if it is None:
          continue
        p, fl = (node, fld) if parent is None else (parent, field)
        if isinstance(it, ast.keyword):
          yield p, fl, it.value
        elif isinstance(it, (ast.Starred, ast.Slice)):
          for sub in children(it, p, fl):
            yield sub
        elif isinstance(it, ast.expr):
          yield p, fl, it

  for node in ast.walk(out):
    if isinstance(node, STRICT_EXPR + STRICT_STMT):
      if isinstance(getattr(node, 'ctx', None), (ast.Store, ast.Del)):
        continue
      for p, fl, ch in children(node, None, None):
        if isinstance(getattr(ch, 'ctx', None), (ast.Store, ast.Del)):
          continue
        if anf._is_trivial(ch):
          continue
        if tr._should_transform(p, fl, ch):
          bad.append('%s.%s still holds %s' % (type(p).__name__, fl, ast.unparse(ch)[:40]))
  names = {}
  for node in ast.walk(out):
    if isinstance(node, ast.Assign) and len(node.targets) == 1 and isinstance(node.targets[0], ast.Name):
      n = node.targets[0].id
      if n.startswith('tmp_1') and n[4:].isdigit():
        names[n] = names.get(n, 0) + 1
  for n, c in names.items():
    if c > 1:
      bad.append('temporary %s assigned %d times' % (n, c))
  return bad
