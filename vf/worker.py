"""Worker process: see vf.pool."""
import importlib
import os
import pickle
import struct
import sys
import traceback


def main():
  out = os.fdopen(os.dup(1), 'wb', buffering=0)
  os.dup2(2, 1)
  sys.stdout = sys.stderr
  inp = sys.stdin.buffer
  while True:
    hdr = inp.read(8)
    if len(hdr) < 8:
      return
    n, = struct.unpack('<Q', hdr)
    mod, func, payload = pickle.loads(inp.read(n))
    try:
      fn = getattr(importlib.import_module(mod), func)
      res = fn(payload)
    except BaseException as e:  # pylint:disable=broad-except
      res = {'verdict': 'error',
             'detail': 'worker exception: %s\n%s' % (e, traceback.format_exc()[-3000:])}
    try:
      data = pickle.dumps(res)
    except Exception as e:  # pylint:disable=broad-except
      data = pickle.dumps({'verdict': 'error', 'detail': 'unpicklable result: %r' % (e,)})
    out.write(struct.pack('<Q', len(data)))
    out.write(data)


if __name__ == '__main__':
  main()
