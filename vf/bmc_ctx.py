"""E3 scenario for C16: thread isolation of the conversion-status stack.

Steps are extracted on every run from /repo/malt/core/ag_ctx.py (_control_ctx,
control_status_ctx, ControlStatusCtx.__enter__/__exit__,
_default_control_status_ctx). Thread-local semantics are applied to
`stacks.control_status` iff the module binds `stacks = threading.local()`.

Scenario per thread (compiled by the same front end from the text below):
enter an own context, observe the current context, leave (the two asserts of
__exit__ are part of the extracted code).
"""
import ast
import os
import threading
import time

from vf import bmc, py2smt
from vf.common import REPO

SCENARIO = '''
def scenario(me):
  me.__enter__()
  seen = control_status_ctx()
  assert seen is me
  me.__exit__(None, None, None)
'''

STUBS = [
    'hasattr/getattr/setattr of stacks.control_status, list.append/pop/[-1] are atomic steps',
    'ControlStatusCtx(...) allocates a fresh object; its status/options fields are not tracked',
    'thread-local semantics for `stacks` as observed on the real object in two fresh threads (list identity)',
]


def extract():
  funs, classes, assigns = py2smt.parse_module(os.path.join(REPO, 'malt/core/ag_ctx.py'))
  if 'stacks' not in assigns:
    raise py2smt.Unsupported('ag_ctx no longer binds a module-level `stacks`')
  tl = ast.unparse(assigns['stacks']).replace(' ', '') == 'threading.local()'
  stacks = py2smt.PrimObj('tlocal' if tl else 'shared_ns', 'stacks')
  comp = py2smt.Compiler(funs, classes, {'stacks': stacks}, hooks=_Hooks(),
                         opaque_roots=('Status', 'enum', 'inspect', 'ag_logging', 'threading'))
  sc = ast.parse(SCENARIO).body[0]
  fr = py2smt.Frame()
  fr.ret_static = []
  comp.inline(py2smt.FuncRef(sc), [py2smt.Reg('in_me', 'ControlStatusCtx')], {}, sc)
  return comp.code, tl


class _Hooks(object):

  def expr_hook(self, c, node, fr):
    return None

  def super_call(self, c, name, node, fr):
    raise py2smt.Unsupported('super().%s' % name)


_PROBE = {}


def probe_real():
  """Semantics of the REAL `ag_ctx.stacks` object, observed in two fresh threads: is the
  attribute present before first use, and do two threads get the same list object?
  (The module text alone cannot tell, e.g. for a threading.local subclass whose __init__
  receives a shared list.)"""
  if _PROBE:
    return _PROBE
  from malt.core import ag_ctx
  res = {}

  def w(k):
    res[k] = (hasattr(ag_ctx.stacks, 'control_status'), ag_ctx._control_ctx())

  for k in ('a', 'b'):
    th = threading.Thread(target=w, args=(k,))
    th.start()
    th.join()
  _PROBE.update(present_before_first_use=res['a'][0], same_list_in_two_threads=res['a'][1] is res['b'][1])
  return _PROBE


def build(nthreads):
  code, tl_text = extract()
  pr = probe_real()
  tl = not pr['same_list_in_two_threads']
  programs = [list(code) for _ in range(nthreads)]
  inits = [{'in_me': 2 + t} for t in range(nthreads)]      # distinct ctx object ids per thread
  extra, heap = (), {}
  if pr['present_before_first_use']:
    # the attribute already holds a list with the default context when a thread first looks
    slots = ['shared'] if not tl else list(range(nthreads))
    extra = tuple(40 + i for i in range(len(slots)))
    for i, sl in enumerate(slots):
      heap['ns.p.%s' % sl] = 1
      heap['ns.v.%s' % sl] = 40 + i
      heap['ll.%d' % (40 + i)] = 1
      heap['ls.%d.0' % (40 + i)] = 7        # the default context object
  m = bmc.Model(programs, inits, ns_thread_local=tl, max_list=3 + (0 if tl else nthreads), keys=(), subs=(),
                extra_lists=extra, init_heap=heap)
  m.probe = dict(pr, module_text_says_thread_local=tl_text)
  return m, tl


def violation(model):
  def v(A, s):
    return A.or_(*[A.eq(s['st.%d' % t], A.const(2)) for t in range(model.T)])
  return v


def validate_sequential():
  """Real enter/observe/exit sequence vs the model, single thread and two threads in turn."""
  from malt.core import ag_ctx
  base = ag_ctx.control_status_ctx()
  c = ag_ctx.ControlStatusCtx(ag_ctx.Status.ENABLED)
  with c:
    assert ag_ctx.control_status_ctx() is c
  assert ag_ctx.control_status_ctx() is base
  n = 0
  for nt in (1, 2):
    m, tl = build(nt)
    sched = []
    for t in range(nt):
      sched += [t] * (len(m.stops[t]) + 1)
    s, trace = bmc.run_schedule(m, sched)
    if any(s['st.%d' % t] != 1 for t in range(nt)):
      raise AssertionError('model: sequential enter/observe/exit did not finish cleanly (%d threads): %r' % (
          nt, [(s['st.%d' % t], s['err.%d' % t]) for t in range(nt)]))
    n += 1
  return n


def replay_schedule(schedule, nthreads):
  import sys
  from malt.core import ag_ctx
  from vf.bmc_cache import LineScheduler
  m, tl = build(nthreads)
  s, trace = bmc.run_schedule(m, schedule)
  order = []
  for t, pc, ln, op in trace:
    if not order or order[-1] != (t, ln):
      order.append((t, ln))
  sch = LineScheduler(order, [os.path.join(REPO, 'malt/core/ag_ctx.py')])
  results = [None] * nthreads

  def worker(t):
    me = ag_ctx.ControlStatusCtx(ag_ctx.Status.ENABLED)
    sys.settrace(sch.tracer(t))
    try:
      try:
        me.__enter__()
        seen = ag_ctx.control_status_ctx()
        if seen is not me:
          results[t] = 'thread %d observed a foreign context' % t
          return
        me.__exit__(None, None, None)
        results[t] = 'ok'
      except Exception as e:  # pylint:disable=broad-except
        results[t] = 'thread %d raised %s: %s' % (t, type(e).__name__, e)
    finally:
      sys.settrace(None)

  ths = [threading.Thread(target=worker, args=(t,)) for t in range(nthreads)]
  for th in ths:
    th.start()
  for th in ths:
    th.join(30)
  bad = [r for r in results if r != 'ok']
  return {'reproduced': bool(bad), 'detail': bad, 'scheduler_failed': sch.failed, 'order': order}


def replay(obj):
  r = replay_schedule(obj['schedule'], obj['threads'])
  print('property  : C16 (thread schedule through ControlStatusCtx enter/observe/exit)')
  print('schedule  :', obj['schedule'])
  print('line order:', r['order'])
  print('observed  :', r['detail'] or 'no violation', '| scheduler:', r['scheduler_failed'] or 'followed the schedule')
  return 1 if r['reproduced'] else 0


def run(R, tier):
  t0 = time.time()
  out = {'assumptions': ['E3 primitive table / stubs: ' + '; '.join(STUBS)]}
  try:
    validated = validate_sequential()
  except py2smt.Unsupported as e:
    R.fatal.append('E3 front end does not recognise the current ag_ctx code: %s' % e)
    return {'summary': 'front end failure', 'assumptions': [], 'states': 0, 'transitions': 0, 'traces_validated': 0}
  except AssertionError as e:
    R.fatal.append('E3 translation validation failed: %s' % e)
    return {'summary': 'validation failure', 'assumptions': [], 'states': 0, 'transitions': 0, 'traces_validated': 0}
  summary = []
  states = transitions = 0
  for n in ([2] if tier == 'quick' else [2, 3]):
    m, tl = build(n)
    # step bound: the longest schedule of the concrete exploration; the unwinding assertion
    # (no schedule leaves a thread unfinished after that many steps) is what justifies it
    ex0 = bmc.explore(m, {}, violation(m))
    r = bmc.bmc(m, violation(m), steps=ex0['longest_schedule'], timeout_s=300 if n == 2 else 900)
    res = {'verdict': {'unsat': 'confirmed', 'sat': 'refuted'}.get(r['result'], 'inconclusive'),
           'name': 'bmc ControlStatusCtx %d threads' % n, 'solver_s': r['time'], 'detail': str(r)}
    if n == 2 and (r['unwinding'] != 'unsat' or r['reach_twin'] != 'sat'):
      R.fatal.append('BMC sanity failed for %d threads: unwinding=%s reach_twin=%s' % (n, r['unwinding'], r['reach_twin']))
    R.count(res)
    summary.append({'threads': n, 'thread_local_stacks': tl, 'probe_of_real_object': m.probe,
                    'steps': r['steps'], 'result': r['result'],
                    'unwinding_assertion': r['unwinding'], 'reachability_twin': r['reach_twin'], 'time_s': r['time']})
    if r['result'] == 'sat':
      rp = replay_schedule(r['schedule'], n)
      if rp['reproduced']:
        R.violation('thread schedule breaks conversion-status isolation (%d threads): %s' % (n, '; '.join(rp['detail'])),
                    {'engine': 'bmc_ctx', 'schedule': r['schedule'], 'threads': n, 'line_order': rp['order']}, set())
      else:
        R.fatal.append('BMC counterexample for %d threads did not reproduce on the real code: %r' % (n, rp))
    if n == 2:
      ex = bmc.explore(m, {}, violation(m))
      states, transitions = ex['states'], ex['transitions']
      if ex['bad_final_states'] and r['result'] == 'unsat':
        R.fatal.append('explicit exploration found a bad state that the BMC missed')
  out.update({'states': states, 'transitions': transitions, 'traces_validated': validated, 'summary': summary,
              'wall_s': round(time.time() - t0, 1)})
  return out
