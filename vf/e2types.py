"""C19 engine: static type inference vs. run-time types, inputs symbolic (CrossHair).

The REAL type_inference.resolve runs with a truthful resolver; an instrumented
copy of the program wraps every annotated load-context expression in a probe that
compares type(value) with the inferred set, and logs the captured variables at
every entry of a local function (CLOSURE_TYPES).
"""
import ast
import copy
import logging
import typing

from vf import e2


def ext_i(v) -> int:
  return int(v) + 1


def ext_f(v) -> float:
  return float(v) / 2


def ext_u(v):
  """Untyped external: the result type depends on the value."""
  if v > 2:
    return 'big'
  return v


SAMPLES = {int: [0, 1, -2, 7], float: [0.5, -1.5, 2.0], bool: [True, False], str: ['a', ''],
           list: [[1], []]}

_BIN = {ast.Add: lambda a, b: a + b, ast.Sub: lambda a, b: a - b, ast.Mult: lambda a, b: a * b,
        ast.Div: lambda a, b: a / b, ast.FloorDiv: lambda a, b: a // b, ast.Mod: lambda a, b: a % b,
        ast.Pow: lambda a, b: a ** b}
_UN = {ast.USub: lambda a: -a, ast.UAdd: lambda a: +a, ast.Not: lambda a: not a, ast.Invert: lambda a: ~a}


def _result_types(fn, *type_sets):
  """Result types CPython produces for operands of the given types (representative values)."""
  import itertools
  out = set()
  for ts in itertools.product(*type_sets):
    if any(t not in SAMPLES for t in ts):
      return None
    for vals in itertools.product(*[SAMPLES[t] for t in ts]):
      try:
        out.add(type(fn(*vals)))
      except Exception:  # pylint:disable=broad-except
        pass
  return out or None


def make_resolver():
  from malt.pyct.static_analysis import type_inference
  import builtins

  class Truthful(type_inference.Resolver):

    def res_name(self, ns, types_ns, name):
      n = str(name)
      if n in ns:
        return {type(ns[n])}, ns[n]
      if hasattr(builtins, n):
        v = getattr(builtins, n)
        return {type(v)}, v
      return None, None

    def res_value(self, ns, value):
      if value is None:
        return {type(None)}
      return {type(value)}

    def res_arg(self, ns, types_ns, f_name, name, type_anno, f_is_local):
      if type_anno is None:
        return None
      n = str(type_anno)
      t = ns.get(n, getattr(builtins, n, None))
      if isinstance(t, type):
        return {t}
      return None

    def res_call(self, ns, types_ns, node, f_type, args, keywords):
      from malt.pyct import anno
      fv = anno.Static.VALUE.of(node.func, None)
      if fv is None:
        return None, None
      if fv is abs and len(args) == 1 and args[0]:
        return _result_types(abs, args[0]), None
      if fv is len:
        return {int}, None
      if fv in (int, float, bool, str):
        return {fv}, None
      ra = getattr(fv, '__annotations__', {}).get('return')
      if isinstance(ra, type):
        return {ra}, None
      return None, None

    def res_slice(self, ns, types_ns, node_or_slice, value, slice_):
      if isinstance(node_or_slice, int) and value and all(isinstance(t, tuple) for t in value):
        try:
          return set(t[node_or_slice] for t in value)
        except IndexError:
          return None
      return None

    def res_compare(self, ns, types_ns, node, left, right):
      return {bool}

    def res_unop(self, ns, types_ns, node, opnd):
      fn = _UN.get(type(node.op))
      return _result_types(fn, opnd) if fn else None

    def res_binop(self, ns, types_ns, node, left, right):
      fn = _BIN.get(type(node.op))
      return _result_types(fn, left, right) if fn else None

    def res_list_literal(self, ns, elt_types):
      return {list}

  return Truthful()


NAMESPACE = {'ext_i': ext_i, 'ext_f': ext_f, 'ext_u': ext_u}


class Static(object):
  pass


class _Wrap(ast.NodeTransformer):

  def __init__(self, ids, typed, fn_free):
    self.ids = ids
    self.typed = typed
    self.fn_free = fn_free

  def generic_visit(self, node):
    node = super().generic_visit(node)
    if (isinstance(node, ast.expr) and node in self.ids and self.ids[node] in self.typed
        and isinstance(getattr(node, 'ctx', ast.Load()), ast.Load)
        and not isinstance(node, (ast.Starred,))):
      return ast.Call(func=ast.Attribute(value=ast.Name(id='_ty', ctx=ast.Load()), attr='e', ctx=ast.Load()),
                      args=[ast.Constant(self.ids[node]), node], keywords=[])
    return node

  def visit_FunctionDef(self, node):
    node = self.generic_visit(node)
    fid = self.ids.get(node)
    if fid in self.fn_free and self.fn_free[fid]:
      names = sorted(self.fn_free[fid])
      d = ast.Dict(keys=[ast.Constant(n) for n in names],
                   values=[ast.Call(func=ast.Attribute(value=ast.Name(id='_ty', ctx=ast.Load()), attr='get',
                                                       ctx=ast.Load()),
                                    args=[ast.Lambda(args=ast.arguments(posonlyargs=[], args=[], vararg=None,
                                                                        kwonlyargs=[], kw_defaults=[], kwarg=None,
                                                                        defaults=[]),
                                                     body=ast.Name(id=n, ctx=ast.Load()))], keywords=[])
                           for n in names])
      call = ast.Expr(ast.Call(func=ast.Attribute(value=ast.Name(id='_ty', ctx=ast.Load()), attr='clo', ctx=ast.Load()),
                               args=[ast.Constant(fid), d], keywords=[]))
      k = 0
      while k < len(node.body) and isinstance(node.body[k], (ast.Nonlocal, ast.Global)):
        k += 1
      node.body.insert(k, call)
    return node


class Probe(object):
  UNBOUND = object()

  def __init__(self, S):
    self.S = S
    self.fails = []
    self.checked = 0

  def get(self, thunk):
    try:
      return thunk()
    except NameError:
      return Probe.UNBOUND

  def _ok(self, v, types):
    for t in types:
      if t is typing.Any or not isinstance(t, (type, tuple)):
        return True               # Any / Callable[...]: nothing is claimed
      if isinstance(t, tuple):
        if isinstance(v, tuple) and len(v) == len(t) and all(self._ok(e, (te,)) for e, te in zip(v, t)):
          return True
      elif isinstance(v, t):
        return True
    return False

  def e(self, nid, v):
    types = self.S.typed[nid]
    self.checked += 1
    if not self._ok(v, types):
      if len(self.fails) < 5:
        node = self.S.nodes[nid]
        self.fails.append({'kind': 'runtime_type_not_in_inferred_set', 'expr': ast.unparse(node)[:50],
                           'line': getattr(node, 'lineno', 0), 'runtime': type(v).__name__,
                           'inferred': sorted(getattr(t, '__name__', str(t)) for t in types),
                           'is_name': isinstance(node, ast.Name)})
    return v

  def clo(self, fid, values):
    ct = self.S.closure_types.get(fid) or {}
    for n, v in values.items():
      if v is Probe.UNBOUND or n not in ct:
        continue
      self.checked += 1
      if not self._ok(v, ct[n]):
        if len(self.fails) < 5:
          self.fails.append({'kind': 'closure_type_not_covered', 'fn': self.S.nodes[fid].name, 'name': n,
                             'runtime': type(v).__name__,
                             'inferred': sorted(getattr(t, '__name__', str(t)) for t in ct[n])})


def analyse(src):
  from malt.pyct import anno, cfg, qual_names, transformer
  from malt.pyct.static_analysis import activity, reaching_definitions, reaching_fndefs, type_inference
  S = Static()
  S.src = src
  tree = ast.parse(src)
  S.ids, S.nodes = e2.number(tree)
  inst = copy.deepcopy(tree)
  inst_ids, _ = e2.number(inst)
  top = [n for n in tree.body if isinstance(n, ast.FunctionDef) and n.name == 'f'][0]
  info = transformer.EntityInfo(name='f', source_code=src, source_file='<c19>', future_features=(),
                                namespace=dict(NAMESPACE))
  ctx = transformer.Context(info, None, None)
  graphs = cfg.build(top)
  node = qual_names.resolve(top)
  node = activity.resolve(node, ctx, None)
  node = reaching_definitions.resolve(node, ctx, graphs)
  node = reaching_fndefs.resolve(node, ctx, graphs)
  node = type_inference.resolve(node, ctx, graphs, make_resolver())
  S.typed = {}
  S.closure_types = {}
  for n in ast.walk(top):
    if isinstance(n, ast.expr) and anno.hasanno(n, anno.Static.TYPES):
      S.typed[S.ids[n]] = tuple(anno.getanno(n, anno.Static.TYPES))
    if isinstance(n, ast.FunctionDef) and anno.hasanno(n, anno.Static.CLOSURE_TYPES):
      S.closure_types[S.ids[n]] = dict((str(k), set(v)) for k, v in anno.getanno(n, anno.Static.CLOSURE_TYPES).items())
  infos = e2.scopes_of(src, tree, S.ids)
  fn_free = dict((S.ids[fn], set(fi.free) | set(fi.nonlocals)) for fn, fi in infos.items() if fi.parent is not None)
  inst_top = [n for n in inst.body if isinstance(n, ast.FunctionDef) and n.name == 'f'][0]
  new_top = _Wrap(inst_ids, S.typed, fn_free).visit(inst_top)
  for a in new_top.args.args:
    a.annotation = None
  mod = ast.Module(body=[new_top], type_ignores=[])
  ast.fix_missing_locations(mod)
  S.code = compile(mod, '<c19-instrumented>', 'exec')
  return S


LAST = {}
TOLERATE = {'fn': None, 'seen': []}


def run_and_check(S, args):
  pr = Probe(S)
  g = {'_ty': pr}
  g.update(NAMESPACE)
  exec(S.code, g)  # pylint:disable=exec-used
  try:
    g['f'](*args)
  except Exception:  # pylint:disable=broad-except
    pass
  real = []
  for f in pr.fails:
    if TOLERATE['fn'] is not None and TOLERATE['fn'](f):
      if len(TOLERATE['seen']) < 20:
        TOLERATE['seen'].append(f)
    else:
      real.append(f)
  LAST['checked'] = LAST.get('checked', 0) + pr.checked
  if real:
    LAST['fails'] = real
    return False
  return True


HARNESS = '''# generated by vf.e2types
from vf import e2types as _t
SRC = %r
S = _t.analyse(SRC)

def check(x: int, y: float, b: bool, k: int) -> bool:
  """
  pre: -3 <= k <= 3
  post: _
  """
  return _t.run_and_check(S, (x, y, b, k))
'''


def work(payload):
  logging.disable(logging.WARNING)
  import importlib
  import traceback
  from vf import e1, gen, xh
  prog = payload['prog']
  res = {'name': prog['name']}
  try:
    mod, _ = e1.load_module(HARNESS % (prog['src'],), payload['tmpdir'], 'c19')
  except Exception as e:  # pylint:disable=broad-except
    res.update(verdict='error', detail='analysis failed: %r\n%s' % (e, traceback.format_exc()[-2000:]))
    return res
  res['annotated'] = len(mod.S.typed)
  LAST.clear()
  TOLERATE['seen'] = []
  TOLERATE['fn'] = None
  if payload.get('classifier') and payload.get('known_patterns'):
    cmod, cfn = payload['classifier'].split(':')
    classify = getattr(importlib.import_module(cmod), cfn)
    pobj = gen.Prog(prog['name'], prog['src'])
    known = set(payload['known_patterns'])
    TOLERATE['fn'] = lambda f: bool(set(classify(pobj, f)) & known)
  # native smoke run
  for a in ((0, 0.5, True, 1), (5, -1.5, False, -2), (-3, 2.0, True, 3)):
    mod.check(*a)
  r = xh.decide(mod.check, payload.get('per_condition_timeout', 25.0), payload.get('per_path_timeout', 8.0))
  res.update(r)
  res['tolerated'] = list(TOLERATE['seen'])
  res['checked'] = LAST.get('checked', 0)
  if r['verdict'] == 'refuted':
    args, kwargs = r['cex']
    LAST.clear()
    try:
      ok = mod.check(*args, **kwargs)
    except Exception as e:  # pylint:disable=broad-except
      ok = False
    if ok:
      res.update(verdict='error', detail='counterexample does not reproduce natively: ' + r['detail'])
    else:
      res['fails'] = LAST.get('fails')
  return res


def replay(obj):
  logging.disable(logging.WARNING)
  S = analyse(obj['program'])
  LAST.clear()
  TOLERATE['fn'] = None
  ok = run_and_check(S, tuple(obj['args']))
  print('property  :', obj.get('property'))
  print('program   :\n' + obj['program'])
  print('arguments :', obj['args'])
  for f in LAST.get('fails', []):
    print('C19 fails :', f)
  return 0 if ok else 1
