"""C20 — conversion options survive embedding and key the caches (exhaustive)."""
from vf import common, unit
from vf.harness import c20 as _names  # noqa: F401  (import check only)

ENCODED = ['malt/core/converter.py', 'malt/impl/api.py', 'malt/operators/function_wrappers.py',
           'malt/converters/functions.py']


def run(tier):
  R = common.Run('C20', tier, 'exploration', ENCODED)
  from vf.harness import c20
  pct = 120.0 if tier == 'quick' else 400.0
  # vacuity guard: the reachability twin must be refuted
  from vf import pool
  twin = pool.run_tasks([('vf.unit', 'work', {'module': 'vf.harness.c20', 'func': 'reach_twin',
                                              'per_condition_timeout': pct, 'per_path_timeout': 30.0})],
                        hard_timeout=int(pct * 2))[0]
  if twin.get('verdict') != 'refuted':
    R.fatal.append('reachability twin was not refuted: %r' % (twin,))
  unit.run_units(R, 'vf.harness.c20', c20.HARNESSES, pct, 30.0,
                 title='ConversionOptions embedding/equality/call-options property fails')
  nvals = 2 ** 10
  cov = {
      'evaluations': nvals * len(c20.HARNESSES),
      'distinct_nontrivial': nvals,
      'rule': 'every assignment of 3 flag booleans x 7 feature-membership booleans (1024 values) per harness; '
              'harnesses: 5 spellings of optional_features x round trip through to_ast/unparse/eval, 11 pair '
              'harnesses (identical, each single field/feature toggled), call_options+uses+STD shortcut. '
              'z3 drives the case split (CrossHair), the real code runs natively per case (NoTracing): '
              'solver-exhausted complete enumeration. All 1024 values are distinct and non-trivial '
              '(each selects a different options value).',
      'exhaustive': R.counts['confirmed'] == len(c20.HARNESSES),
      'reachability_twin': twin.get('verdict'),
  }
  return R.finish(cov, assumptions=[
      'the namespace used to evaluate embedded options is the ag__ module returned by PyToPy.get_extra_locals()',
      'finite configuration space: solver-exhausted case analysis, equivalent to complete enumeration',
  ])
