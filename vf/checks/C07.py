"""C07 — liveness is sound: anything read later is reported live."""
from vf import e2run

ENCODED = ['malt/pyct/static_analysis/liveness.py', 'malt/pyct/static_analysis/reaching_fndefs.py',
           'malt/pyct/static_analysis/activity.py', 'malt/pyct/cfg.py']


def classify(p, fail):
  """Known finding: the missing variable is the target of a for loop whose header is
  the node at (or whose statement is) the place where it is reported not live."""
  import ast
  tags = set()
  names = set(fail.get('names') or ())
  if not names:
    return tags
  for n in ast.walk(ast.parse(p.src)):
    if isinstance(n, ast.For):
      tnames = set(t.id for t in ast.walk(n.target) if isinstance(t, ast.Name))
      where = fail.get('at') or fail.get('stmt') or ''
      at_header = (where == ast.unparse(n.iter)[:60] or where == ast.unparse(n).split('\n')[0][:50])
      before_loop = fail.get('line') and fail['line'] < n.lineno and 'live' in fail.get('kind', '')
      # The header node kills the target on the exit edge as well, so ANY value of the
      # target (assigned before the loop or inside its body) that is only read after the
      # loop is reported dead: the finding covers every such report for loop targets.
      if names <= tnames:
        tags.add('for_target_killed_on_zero_trip_exit')
  return tags


def run(tier):
  return e2run.run_property('C07', tier, ENCODED, classify,
                            extra_assumptions=['per-node live sets come from a fresh run of the real liveness.Analyzer on '
                                               'the annotated tree; reads/writes by local functions that close over a '
                                               'variable are attributed to the calling statement'],
                            outside='closures of lambdas called after their defining statement (documented limit)')
