"""C10 — conversion cache is coherent, converts once, and is thread-safe.

(1b) converted_call histories (function, options, context status) against the real call
    wrapper with its allow-list cache: each request must run what a fresh state would run.
(1) Histories (unit harness, solver-exhausted): every sequence of H requests
    (function, options) over the pool of vf/harness/c10.py against ONE real
    transpiler instance; each returned function must behave and read like a
    cache-less fresh conversion of exactly that function under exactly those
    options, and the source transformation runs at most once per (code, options).
(2) Schedules (E3, z3 BMC): all interleavings of 2 (quick) / 3 (thorough) threads
    through the steps extracted from the real transform_function / cache code.
"""
from vf import common, pool, unit

LEVEL = 'model_checking'

ENCODED = ['malt/pyct/transpiler.py', 'malt/pyct/cache.py', 'malt/core/converter.py',
           'malt/impl/api.py', 'malt/impl/conversion.py']


def run(tier):
  R = common.Run('C10', tier, LEVEL, ENCODED)
  from vf.harness import c10
  twin = pool.run_tasks([('vf.unit', 'work', {'module': 'vf.harness.c10', 'func': 'reach_twin',
                                              'per_condition_timeout': 60.0})], hard_timeout=300)[0]
  if twin.get('verdict') != 'refuted':
    R.fatal.append('reachability twin was not refuted: %r' % (twin,))
  if tier == 'quick':
    names, H, per = c10.HISTORY_ABA + c10.HISTORY3, 3, 400
    pct = 240.0
  else:
    names, H, per = c10.HISTORY_ABA + c10.HISTORY3 + c10.HISTORY4, 4, 8000
    pct = 3000.0
  unit.run_units(R, 'vf.harness.c10', names, pct, 120.0,
                 title='cache returned a function that is not a fresh conversion of the request / converted twice',
                 hard_timeout=int(pct * 1.5))
  unit.run_units(R, 'vf.harness.c10', c10.CALL_HISTORY3, pct, 120.0,
                 title='converted_call served a request differently from a fresh conversion in the same context '
                       '(state left behind by an earlier request)',
                 hard_timeout=int(pct * 1.5))
  from vf import bmc_cache
  bm = bmc_cache.run(R, tier)
  n_hist = 28 * 28 + 28 * 28 * 28 + (8 * 16 ** 3 if tier != 'quick' else 0)
  cov = {
      'history_harnesses': len(names),
      'history_bound': 'H<=%d requests over 7 callables (5 functions, 2 bound methods handed over as temporary objects) x 4 option sets (every history enumerated by the solver; histories of 4 requests: first request from a sub-pool of 4 callables x 2 option sets, the other three over that sub-pool x 4 option sets)' % H,
      'histories': n_hist,
      'converted_call_histories': '3 requests over 3 functions sharing code (one marked as artifact) x 2 option sets x 3 context statuses '
                                  '(18 harnesses x 324 continuations), real api._TRANSPILER and conversion._ALLOWLIST_CACHE',
      'reachability_twin': twin.get('verdict'),
      'outside_bounds': 'weak-reference collection concurrent with a lookup; more than 3 threads; preemption '
                        'inside a single C-level dict operation; converted_call allow-list cache under threads',
  }
  assumptions = [
      'reference = conversion of the same function object by a brand-new transpiler instance (no cache)',
      'behaviour compared on sample inputs (-1, 2, 4, 7) plus identity of defaults/globals/cells and normalised generated source',
  ]
  if bm:
    cov.update({'states': max(1, bm['states']), 'transitions': max(1, bm['transitions']),
                'traces_validated_against_impl': bm['traces_validated'], 'bmc': bm['summary'],
                'states_note': 'states/transitions are counted by an explicit concrete exploration of the SAME '
                               'extracted transition system (2 threads, 3 request pairs), used as a cross-check of '
                               'the z3 verdict; the deciding step is the z3 BMC over all schedules'})
    assumptions += bm['assumptions']
  else:
    cov.update({'evaluations': n_hist, 'distinct_nontrivial': n_hist,
                'rule': 'every request history of the stated length; all are distinct; schedules not yet modelled'})
  return R.finish(cov, assumptions=assumptions)
