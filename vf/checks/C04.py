"""C04 — every overloadable construct is routed through its operator.

Engine E1 + opaque-tracer backend: all user-visible values are wrapped in T,
whose __bool__ raises NativeBool; only the overloadable operators
(if_stmt/while_stmt/for_stmt/and_/or_/not_/if_exp/eq/not_eq) unwrap. A native
if / while / and / or / not / conditional expression / chained comparison that
survived conversion forces bool(T) on the inputs that reach it. User callees
start with chk(name), which verifies that the innermost converted_call dispatch
is for that callee. z3 searches every input within the bounds for a path that
reaches a surviving native construct or an undispatched call, and the result
must equal the original's.
"""
import random

from vf import common, e1run, gen

ENCODED = [
    'malt/converters/conditional_expressions.py', 'malt/converters/logical_expressions.py',
    'malt/converters/control_flow.py', 'malt/converters/call_trees.py',
    'malt/converters/break_statements.py', 'malt/converters/continue_statements.py',
    'malt/converters/return_statements.py', 'malt/pyct/transformer.py', 'malt/impl/api.py',
]

MODE = {'api': 'backend', 'backend': 'opaque', 'recursive': True, 'post': 'opaque'}
MODE_EQ = dict(MODE, features=['EQUALITY_OPERATORS'])
MODE_BF = dict(MODE, features=['BUILTIN_FUNCTIONS'])

FEATURES = gen.ALL_FEATURES - {'compr', 'builtins', 'listops', 'ops2'}   # (ops2: native-only operators on opaque values)

# Each construct placed in each context the property lists.
EXTRA = [
    ('o:nested_ifexp', '''def f(x, n, b, xs):
  a = t(1, x) if x > 2 else (t(2, n) if b else t(3, 7))
  return a
'''),
    ('o:ifexp_in_boolop_in_lambda', '''def f(x, n, b, xs):
  g = lambda z: (z if z > x else x) > 1 and (not b or z == n)
  return (g(1), g(n))
'''),
    ('o:constructs_in_finally_and_except', '''def f(x, n, b, xs):
  a = 0
  try:
    if x > 1:
      raise UErr(x)
    a = 1
  except UErr:
    if b and x > 2:
      a = 2
    while a < n:
      a = a + 2
  finally:
    if not b:
      a = a + 10
    for i in range(n):
      if i == x:
        continue
      a = a + 1
  return a
'''),
    ('o:constructs_in_with_and_nested_def', '''def f(x, n, b, xs):
  a = 0
  with CM(1):
    def h(p):
      chk('h')
      if p > x or b:
        return p if p > 0 else -p
      for e in xs:
        if e == p:
          break
        p = p + 1
      return p
    a = h(n) + h(x)
  return a
'''),
    ('o:comprehension_element_and_default', '''def f(x, n, b, xs):
  def h(p, q=3):
    chk('h')
    return [(e if e > p else p) for e in xs] + [q]
  return (h(x), [not (e > x and b) for e in xs])
'''),
    ('o:operand_of_operand', '''def f(x, n, b, xs):
  a = (x > 1 and n > 1) or (not (x < n < 3) and b)
  c = 1 if (2 if a else 0) > x else 0
  return (a, c)
'''),
    ('o:return_in_try_else', '''def f(x, n, b, xs):
  a = 0
  for e in xs:
    try:
      if e > x:
        raise UErr(e)
      a = a + 1
    except UErr:
      a = a + 10
    else:
      if a > n or b:
        return (a, e)
      a = a + 100
  try:
    a = a + 1
  except UErr:
    a = 0
  else:
    if x > 3:
      return (a, -2)
  return (a, -1)
'''),
    ('o:logical_under_unary_arith', '''def f(x, n, b, xs):
  a = -(x > 1 and b)
  c = +(not b) - (-(x < n or b))
  d = 0
  for e in xs:
    d = d + -(e > x and (b or e == n))
  w = ~(-(x > 2 or not b))
  return (a, c, d, w)
'''),
    ('o:decorator_call_on_nested_def', '''def tagged(k, m):
  chk('tagged')
  def deco(fn):
    def inner(p):
      return fn(p) + k + m
    return inner
  return deco

def scale(k):
  chk('scale')
  return k * 2

def f(x, n, b, xs):
  @tagged(1, scale(n))
  def second(p):
    chk('second')
    if p > x:
      return p
    return -p
  a = second(n)
  return a
'''),
    ('o:calls_inside_print_arguments', '''def describe(p):
  chk('describe')
  if p > 1:
    return 'big'
  return 'small'

def pick(p):
  chk('pick')
  return p + 1

def f(x, n, b, xs):
  a = 0
  print('v', describe(x), end='')
  print(*[pick(v) for v in xs], sep=(lambda: describe(n))())
  for i in range(n):
    print(pick(i), describe(i), file=None)
    a = a + 1
  return a
'''),
    ('o:calls_inside_loop_directive_arguments', '''def limit(k):
  chk('limit')
  if k > 2:
    return k + 5
  return 7

def f(x, n, b, xs):
  a = 0
  for i in range(n):
    malt.experimental.set_loop_options(maximum_iterations=limit(n))
    if i > x:
      a = a + 1
  w = 0
  while w < n:
    malt.experimental.set_loop_options(maximum_iterations=limit(x), parallel_iterations=limit(1))
    w = w + 1
  return (a, w)
'''),
    ('o:names_resembling_debugger_entries', '''def at_breakpoint(p):
  chk('at_breakpoint')
  if p > 1:
    return p + 1
  return p

def set_trace(p):
  chk('set_trace')
  return p * 2

class _Sim(object):
  def __init__(self):
    self.pdb = self
  def breakpoint(self, p):
    chk('breakpoint')
    if p > 0:
      return p - 1
    return 0
  def set_trace(self, p):
    chk('set_trace')
    return p + 3

def f(x, n, b, xs):
  sim = _Sim()
  a = at_breakpoint(x) + set_trace(n)
  for i in range(n):
    a = a + sim.breakpoint(i)
    if i > x:
      a = a + sim.pdb.set_trace(i)
  g = lambda p: at_breakpoint(p)
  return a + g(2)
'''),
    ('o:while_in_lambda_caller', '''def f(x, n, b, xs):
  a = 0
  k = lambda u: u + 1 if u > x else u - 1
  w = 0
  while w < n and not (a > 5 and b):
    w = w + 1
    a = k(a) + k(w)
  return a
'''),
]


OPAQUE_SAFE_EXOTIC = {
    'k:annassign', 'k:pass_and_ellipsis', 'k:import_in_function', 'k:nested_class', 'k:multi_item_with',
    'k:try_finally_flow', 'k:return_in_finally_and_with', 'k:while_complex_conditions',
    'k:global_nonlocal_mix', 'k:nested_functions_depth3', 'k:recursion', 'k:conditional_expr_nesting',
    'k:delete_and_rebind', 'k:docstrings_and_constants', 'k:shadowed_builtins',
}


def run(tier):
  R = common.Run('C04', tier, 'translation_validation', ENCODED)
  rnd = random.Random(R.seed)
  sk = gen.skeletons(2, chk=True)
  if tier == 'quick':
    progs = rnd.sample(sk, 60) + gen.random_programs(50, R.seed + 5, FEATURES, chk=True)
  else:
    sk3 = [p for p in gen.skeletons(3, chk=True) if p.name.count('>') == 2]
    progs = sk + rnd.sample(sk3, 200) + gen.random_programs(250, R.seed + 5, FEATURES, chk=True)
  progs += [gen.Prog(n, s, {'extra'}) for n, s in EXTRA]
  # the hand-written programs that do not apply native-only operations (assert, f-string
  # formatting, `is`, star-unpacking of opaque values, ...) to tracer values
  from vf import exotic
  progs += [p for p in exotic.programs() if p.name in OPAQUE_SAFE_EXOTIC]
  mr = random.Random(R.seed + 1)

  def mode_for(p):
    ms = [MODE]
    q = mr.random()
    if 'extra' in p.tags or q < 0.15:
      ms.append(MODE_EQ)
    elif q < 0.25:
      ms.append(MODE_BF)
    return ms

  bounds = {'n': 3, 'len': 2}
  pct, ppt = (20.0, 5.0) if tier == 'quick' else (90.0, 15.0)
  results, stats = e1run.run_family(
      R, progs, None, bounds, pct, ppt, None, mode_for=mode_for,
      title='a native control construct / undispatched call survived conversion (or result differs)')
  cov = {
      'programs': len(progs),
      'disagreements_checked': R.counts['refuted'],
      'by_mode': stats['by_mode'],
      'bounds': {'n': '0..3', 'len(xs)': '<=2', 'x': 'unbounded int', 'per_condition_timeout_s': pct},
      'outside_bounds': 'documented exceptions are not generated: comprehension clauses (filters), '
                        'with-item expressions, pdb/breakpoint, print without BUILTIN_FUNCTIONS; '
                        'min/max/int on opaque values (the builtins truth-test natively)',
  }
  return R.finish(cov, assumptions=[
      'a surviving native construct is observable iff some input makes its test depend on an argument; '
      'generated conditions depend on x, n, b or list elements',
      'T wrapper of vf/backends.py models an opaque traced value',
  ])
