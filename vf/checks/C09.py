"""C09 — converted functions keep the original calling interface and environment.

Unit harnesses (vf/harness/c09.py) on to_graph(f) for a family of signatures /
closure shapes: one obligation per (function, binding shape) with symbolic
argument values - same outcome (value or TypeError) as the original - plus
shared-cell / shared-global / shared-default / bound-method harnesses.
Concrete side conditions (signature text, identity of defaults, kwdefaults,
globals, cells; decorator not re-applied) are evaluated once and reported as such.
"""
from vf import common, pool, unit

ENCODED = ['malt/pyct/transpiler.py', 'malt/pyct/loader.py', 'malt/pyct/inspect_utils.py',
           'malt/converters/functions.py', 'malt/impl/api.py']


def static_work(payload):
  import logging
  logging.disable(logging.WARNING)
  from vf.harness import c09
  bad = c09.static_conditions()
  try:
    c09.setup_directive_only()
  except Exception as e:  # pylint:disable=broad-except
    bad.append('directive_only_free_var: conversion failed: %s: %s' % (type(e).__name__, str(e)[:300]))
  return {'verdict': 'refuted' if bad else 'confirmed', 'bad': bad, 'name': 'static_conditions'}


def replay(obj):
  r = static_work({})
  for b in r['bad']:
    print('side condition fails:', b)
  return 1 if r['bad'] else 0


def run(tier):
  R = common.Run('C09', tier, 'translation_validation', ENCODED)
  from vf.harness import c09
  pct = 30.0 if tier == 'quick' else 180.0
  twin = pool.run_tasks([('vf.unit', 'work', {'module': 'vf.harness.c09', 'func': 'reach_twin',
                                              'per_condition_timeout': 60.0})], hard_timeout=300)[0]
  if twin.get('verdict') != 'refuted':
    R.fatal.append('reachability twin was not refuted: %r' % (twin,))
  st = pool.run_tasks([('vf.checks.C09', 'static_work', {})], hard_timeout=300)[0]
  R.notes.append('concrete side conditions (not a solver result): %s' % (st.get('bad') or 'all hold'))
  if st.get('verdict') == 'refuted':
    R.violation('interface/environment side condition fails: %s' % '; '.join(st['bad'])[:500],
                {'engine': 'checks.C09', 'bad': st['bad']}, set())
  elif st.get('verdict') != 'confirmed':
    R.fatal.append('static conditions did not run: %r' % (st,))
  unit.run_units(R, 'vf.harness.c09', [(n, (n,)) for n in c09.BINDING], pct, 10.0,
                 title='converted function binds/behaves differently', setup='prewarm')
  unit.run_units(R, 'vf.harness.c09', [(n, (n,)) for n in c09.SEMANTIC], pct * 2, 10.0,
                 title='converted function does not share environment with the original', setup='prewarm')
  if st.get('verdict') == 'confirmed':
    unit.run_units(R, 'vf.harness.c09', ['directive_only_free_var', 'directive_only_sorted_first'], pct, 10.0,
                   title='function whose free variable is only used by a directive',
                   setup='setup_directive_only')
  cov = {
      'programs': len(c09.FUNCS) + 3,
      'disagreements_checked': R.counts['refuted'],
      'binding_obligations': len(c09.BINDING),
      'functions': sorted(c09.FUNCS),
      'bounds': 'up to 5 symbolic int values per call; <=5 parameters, <=3 free variables',
      'reachability_twin': twin.get('verdict'),
      'side_conditions': 'signature text, __defaults__/__kwdefaults__ identity, __globals__ identity, '
                         'cell identity per free variable, decorator not re-applied (concrete, reported as such)',
  }
  return R.finish(cov, assumptions=[
      'signatures and closure shapes are enumerated (vf/harness/c09_targets.py); values are symbolic',
      'TypeError from binding is compared by exception type only',
  ])
