"""C02 — functional (tracing) operator backends see complete state.

Engine E1 + functional backend: the program is converted by the REAL pipeline
with `ag__.if_stmt/while_stmt/for_stmt` replaced (through get_extra_locals) by
operators that touch the enclosing function's variables only through
get_state/set_state: both branches of every conditional are run from the same
initial state and only the declared outputs of the chosen one are kept; every
loop body is traced once out of band and the carried state is re-injected
before every iteration. For side-effect-free total programs the result must
equal CPython's, for all inputs within the bounds (z3 decides).
"""
import random

from vf import common, e1run, gen

ENCODED = [
    'malt/converters/control_flow.py', 'malt/operators/control_flow.py',
    'malt/pyct/static_analysis/liveness.py', 'malt/pyct/static_analysis/reaching_definitions.py',
    'malt/pyct/static_analysis/reaching_fndefs.py', 'malt/pyct/static_analysis/activity.py',
    'malt/pyct/cfg.py', 'malt/converters/return_statements.py',
    'malt/converters/break_statements.py', 'malt/converters/continue_statements.py',
]

MODE = {'api': 'backend', 'backend': 'functional', 'recursive': True, 'post': 'functional'}

EXTRA = [
    ('p:composite_state', '''def f(x, n, b, xs):
  o = O()
  d = {'k': 1}
  for i in range(n):
    if i > x:
      o.v = o.v + i
    else:
      d['k'] = d['k'] * 2
    w = 0
    while w < i:
      w = w + 1
      o.w = o.w + d['k']
  return (o.v, o.w, d['k'])
'''),
    ('p:loop_var_after_loop', '''def f(x, n, b, xs):
  i = 7
  a = 0
  for i in range(n):
    a = a + i
  c = i
  for e in xs:
    if e > x:
      c = c + e
      break
  return (a, c, i)
'''),
    ('p:early_return_in_nested_loops', '''def f(x, n, b, xs):
  a = 0
  for i in range(n):
    w = 0
    while w < n:
      w = w + 1
      if w + i > x:
        return (a, i, w)
      a = a + 1
    if b:
      continue
    a = a * 2
  return (a, -1, -1)
'''),
    ('p:closure_read_only', '''def f(x, n, b, xs):
  a = 1
  def h(p):
    return p + a
  c = 0
  for i in range(n):
    a = a + 1
    if h(i) > x:
      c = c + h(0)
  return (a, c)
'''),
    ('p:closure_mutates_captured_object', '''def f(x, n, b, xs):
  o = O()
  d = {'k': 1}
  def h(p):
    if p > x:
      o.v = o.v + p
    else:
      d['k'] = d['k'] * 2
    w = 0
    while w < p:
      w = w + 1
      o.w = o.w + d['k']
    return w
  r = h(n)
  s = h(2)
  return (r, s, o.v, o.w, d['k'])
'''),
    ('p:closure_loop_on_captured_dict', '''def f(x, n, b, xs):
  d = {'k': 0}
  acc = O()
  def step(p):
    for i in range(p):
      if i > x:
        d['k'] = d['k'] + i
      acc.v = acc.v + 1
    return d['k']
  a = step(n)
  c = step(1)
  return (a, c, d['k'], acc.v)
'''),
    ('p:only_later_read_is_inside_closure', '''def f(x, n, b, xs):
  a = x
  def doubled():
    return a * 2
  if b:
    a = a + 1
  a = doubled()
  c = n
  def shifted():
    return c + 100
  if x == 0:
    c = c * 3
  elif x == 1:
    c = c - 7
  else:
    c = c + 0
  c = shifted()
  s = 0
  for i in range(n):
    if i == 1:
      a = a + i
    a = doubled()
    s = s + a
  return (a, c, s)
'''),
    ('p:read_only_by_default_expression', '''def f(x, n, b, xs):
  base = x
  step = 1
  m = 0
  if b:
    base = base + 1
  def h(a, *, k=base):
    return a + k
  if n > 1:
    step = step + n
  g = lambda a, *, k=step: a * k
  if x > 0:
    m = m + 7
  else:
    m = m + 9
  def q(a, k=m):
    return a - k
  return (h(1), g(2), q(3))
'''),
    ('p:nonlocal_updated_in_branch_of_inner_function', '''def f(x, n, b, xs):
  total = 1
  last = 0
  def inner(p):
    nonlocal total, last
    if p > x:
      total = total + p
    else:
      last = p
    w = 0
    while w < p:
      w = w + 1
      if w == 2:
        last = last + w
    return 0
  r = inner(n)
  s = inner(1)
  return (total, last, r, s)
'''),
    ('p:carried_by_conditional_at_loop_tail', '''def f(x, n, b, xs):
  prev = 0
  out = 0
  for v in xs:
    out = out + prev
    if v > x:
      prev = v
    else:
      prev = 1
  acc = 0
  i = 0
  while i < n:
    i = i + 1
    out = out + acc
    if i > 1:
      if acc > x:
        acc = acc - 1
      elif b:
        acc = acc + i
  gain = 1
  for k in range(n):
    out = out + gain
    if k == x:
      continue
    if k > 0:
      gain = gain * 2
  return (out, prev, acc, gain)
'''),
    ('p:swap_and_tuple', '''def f(x, n, b, xs):
  a = 0
  c = 1
  w = 0
  while w < n:
    w = w + 1
    if a < x:
      a, c = c, a + c
    else:
      c = c - 1
  return (a, c)
'''),
]


# Listed finding (same root cause as the C06/C07 zero-trip entries): re-observed on every run.
WITNESS = [
    ('w:for_target_modified_in_body_conditional', '''def f(x, n, b, xs):
  i = 0
  for i in range(n):
    if b:
      i = i * 2 + 1
  return i
'''),
]


def classify(p, m, r):
  """Structural pattern of the listed finding: the target of a for loop is rebound inside
  an if/while/for block of that loop's body."""
  import ast
  tags = set()
  if r.get('kind') != 'mismatch':
    return tags
  for node in ast.walk(ast.parse(p.src)):
    if not isinstance(node, ast.For):
      continue
    tg = {t.id for t in ast.walk(node.target) if isinstance(t, ast.Name)}
    for st in node.body:
      if isinstance(st, (ast.If, ast.While, ast.For)) and any(
          isinstance(a, ast.Name) and isinstance(a.ctx, ast.Store) and a.id in tg for a in ast.walk(st)):
        tags.add('for_target_rebound_in_body_block_not_an_output')
  return tags


def programs(tier, seed):
  rnd = random.Random(seed)
  sk = gen.skeletons(2, pure=True)
  if tier == 'quick':
    progs = [p for p in sk if p.name.count('>') == 0] + rnd.sample([p for p in sk if p.name.count('>') == 1], 40)
    progs += gen.random_programs(30, seed, gen.PURE_FEATURES, 3, 4, tracer=False, prefix='prnd')
  else:
    sk3 = [p for p in gen.skeletons(3, pure=True) if p.name.count('>') == 2]
    progs = sk + rnd.sample(sk3, 200)
    progs += gen.random_programs(250, seed, gen.PURE_FEATURES, 3, 5, tracer=False, prefix='prnd')
    progs += gen.random_programs(60, seed + 1, gen.PURE_FEATURES, 4, 6, tracer=False, prefix='prnd')
  progs += [gen.Prog(n, s, {'extra'}) for n, s in EXTRA]
  progs += [gen.Prog(n, s, {'witness'}) for n, s in WITNESS]
  return progs


def run(tier):
  R = common.Run('C02', tier, 'translation_validation', ENCODED)
  progs = programs(tier, R.seed)
  bounds = {'n': 3, 'len': 2}
  pct, ppt = (20.0, 5.0) if tier == 'quick' else (90.0, 15.0)
  results, stats = e1run.run_family(
      R, progs, [MODE], bounds, pct, ppt, classify,
      title='functional backend computes a different result (state tuple incomplete)')
  cov = {
      'programs': len(progs),
      'disagreements_checked': R.counts['refuted'],
      'bounds': {'n': '0..3', 'len(xs)': '<=2', 'x': 'unbounded int', 'per_condition_timeout_s': pct},
      'backend': 'vf.backends._functional injected through PyToPy.get_extra_locals',
      'outside_bounds': 'programs with side effects or partial operations; nonlocal writes inside called '
                        'local functions (documented: modifications are not detected across functions)',
  }
  return R.finish(cov, assumptions=[
      'the functional backend of vf/backends.py is the model of a tracing backend given in the property statement',
      'programs are side-effect free and total (generator restriction), so speculative execution is harmless',
      'CPython executing the original function is the reference',
  ])
