"""C19 — static type inference over-approximates the types that occur at run time.

The REAL type_inference.resolve runs with a truthful resolver (vf/e2types.py);
the instrumented program is executed symbolically by CrossHair on x:int, y:float,
b:bool, k:int (real conditions: run-time types depend on data flow). Post: at
every executed annotated read/expression type(value) is in the inferred set, and
at every call of a local function the captured variables' types are covered by
its CLOSURE_TYPES.
"""
import ast
import os
import random

from vf import common, gen, pool

ENCODED = ['malt/pyct/static_analysis/type_inference.py', 'malt/pyct/cfg.py',
           'malt/pyct/static_analysis/reaching_fndefs.py', 'malt/pyct/static_analysis/activity.py']

HAND = [
    ('ty:branches_join', '''def f(x: int, y: float, b: bool, k: int):
  m = 1
  if x > k:
    m = y
  elif b:
    m = x > 2
  r = m
  z = r * 2
  return z
'''),
    ('ty:loop_fixed_point', '''def f(x: int, y: float, b: bool, k: int):
  a = 0
  i = 0
  while i < k:
    i = i + 1
    a = a + y
    if a > x:
      a = i
  c = a
  return c
'''),
    ('ty:binops', '''def f(x: int, y: float, b: bool, k: int):
  a = x + b
  c = x / 2
  d = x // 2
  e = y * x - b
  g = -b
  h = not x
  p = x < y
  q = (k + 1) ** 2
  return (a, c, d, e, g, h, p, q)
'''),
    ('ty:typed_calls', '''def f(x: int, y: float, b: bool, k: int):
  a = ext_i(x)
  c = ext_f(a)
  d = abs(y)
  e = abs(k)
  g = len([x, k])
  h = float(x)
  if b:
    a = ext_f(x)
  r = a
  return (r, c, d, e, g, h)
'''),
    ('ty:closure_types', '''def f(x: int, y: float, b: bool, k: int):
  a = 1
  c = y
  def h(p: int):
    return a + c + p
  r = h(k)
  if b:
    a = y
    r = h(x)
  c = x
  s = h(0)
  return (r, s)
'''),
    ('ty:tuple_unpack', '''def f(x: int, y: float, b: bool, k: int):
  a, c = x, y
  if k > 0:
    a, c = c, a
  d = a
  e = c
  return (d, e)
'''),
    ('ty:search_with_break', '''def f(x: int, y: float, b: bool, k: int):
  found = 0
  i = 0
  while i < k:
    if i + x > 1:
      found = y
      break
    i = i + 1
  r = found
  return r
'''),
    ('ty:retype_then_continue', '''def f(x: int, y: float, b: bool, k: int):
  m = 1
  i = 0
  while i < k:
    i = i + 1
    if b:
      m = x > i
      continue
    pass
    m = m + 1
  r = m
  z = r
  return z
'''),
    ('ty:parameter_shadows_enclosing_variable', '''def f(x: int, y: float, b: bool, k: int):
  label = x
  def relabel(x):
    u = x
    v = u
    return v
  def keep(label, k: int):
    w = label
    return w
  r = relabel('name')
  s = keep(y, k)
  if b:
    s = keep(b, 1)
  z = relabel(label)
  return (r, s, z)
'''),
    ('ty:same_name_defined_on_two_paths', '''def f(x: int, y: float, b: bool, k: int):
  a = x
  if b:
    def pick(p: int):
      u = a
      return u
    r = pick(0)
  else:
    def pick(p: int):
      v = a
      return v
    r = pick(0)
  a = y
  s = pick(2)
  return (r, s)
'''),
    ('ty:closure_after_break', '''def f(x: int, y: float, b: bool, k: int):
  c = 1
  def g(p: int):
    return c + p
  i = 0
  while i < k:
    i = i + 1
    if i > x:
      c = y
      break
    pass
  r = g(i)
  return r
'''),
    ('ty:chained_unpack_then_name', '''def f(x: int, y: float, b: bool, k: int):
  c, d = t = x, y
  r = t
  u = r
  e, g = h = i = y, b
  while k > 0:
    k = k - 1
    p, q = w = d, c
    r = w
  s = r
  z = i
  return (u, s, z, h)
'''),
    ('ty:nonlocal_writer', '''def f(x: int, y: float, b: bool, k: int):
  a = 0
  def w(v: float):
    nonlocal a
    a = v
    return a
  if b:
    r = w(y)
  c = a
  return c
'''),
]

WITNESS = [
    ('w:stale_for_target', '''def f(x: int, y: float, b: bool, k: int):
  i = y
  for i in range(k):
    a = i
  r = i
  return r
'''),
    ('r:untyped_stores_forget', '''def f(x: int, y: float, b: bool, k: int):
  c = 1
  c = {}
  d = c
  e = 1
  e = ext_u(x)
  g = e
  return (d, g)
'''),
]


def rand_program(seed, idx):
  r = random.Random(seed * 9001 + idx)
  V = ['a', 'c', 'm']
  inits = ['a = 0', 'c = y', 'm = b']
  rhs = ['x', 'y', 'b', 'k', '1', '2.5', 'a', 'c', 'm', 'x + k', 'y * 2', 'a + c', 'm + 1', 'x > k', 'not b',
         '-a', 'ext_i(x)', 'ext_f(k)', 'abs(c)', 'x / 2', 'k // 2', 'a - m']

  def stmt(d):
    q = r.random()
    if d >= 2 or q < 0.5:
      return ['%s = %s' % (r.choice(V), r.choice(rhs))]
    if q < 0.75:
      out = ['if %s:' % r.choice(['x > k', 'b', 'y > 0.5', 'k == 1', 'x + k > 2'])] + gen.ind(block(d + 1))
      if r.random() < 0.5:
        out += ['else:'] + gen.ind(block(d + 1))
      return out
    if q < 0.9:
      body = block(d + 1)
      if r.random() < 0.6:
        body = body + ['if %s:' % r.choice(['x > i%d' % d, 'b', 'i%d == 1' % d])] + gen.ind(
            ['%s = %s' % (r.choice(V), r.choice(rhs)), r.choice(['break', 'continue'])]) + ['pass'] + block(d + 1)
      return ['w%d = 0' % d, 'while w%d < k:' % d] + gen.ind(['w%d = w%d + 1' % (d, d), 'i%d = w%d' % (d, d)] + body)
    return ['r%d = %s' % (d, r.choice(V))]

  def block(d):
    out = []
    for _ in range(r.randint(1, 3)):
      out.extend(stmt(d))
    return out

  body = inits + block(0) + ['ra = a', 'rc = c', 'rm = m', 'return (ra, rc, rm)']
  return gen.Prog('tyr:%d:%d' % (seed, idx),
                  '\n'.join(['def f(x: int, y: float, b: bool, k: int):'] + gen.ind(body)) + '\n', {'types'})


def _tainted_names(src):
  """Names whose inferred set can be stale: for-loop targets, or (transitively) names
  assigned from an expression reading such a name. Flow-insensitive."""
  tree = ast.parse(src)
  tainted = set()
  for n in ast.walk(tree):
    if isinstance(n, ast.For):
      tainted.update(t.id for t in ast.walk(n.target) if isinstance(t, ast.Name))
  changed = True
  while changed:
    changed = False
    for n in ast.walk(tree):
      if isinstance(n, ast.Assign):
        reads = set(q.id for q in ast.walk(n.value) if isinstance(q, ast.Name))
        if reads & tainted:
          for t in n.targets:
            for q in ast.walk(t):
              if isinstance(q, ast.Name) and q.id not in tainted:
                tainted.add(q.id)
                changed = True
  return tainted


def _nonlocal_written(src):
  out = set()
  for fn in ast.walk(ast.parse(src)):
    if isinstance(fn, ast.FunctionDef):
      decl = set()
      for n in ast.walk(fn):
        if isinstance(n, ast.Nonlocal):
          decl.update(n.names)
      for n in ast.walk(fn):
        if isinstance(n, ast.Name) and isinstance(n.ctx, ast.Store) and n.id in decl:
          out.add(n.id)
  return out


def classify(p, fail):
  tags = set()
  if fail.get('kind') != 'runtime_type_not_in_inferred_set':
    return tags
  names = set(q.id for q in ast.walk(ast.parse(fail.get('expr') or 'None', mode='eval')) if isinstance(q, ast.Name))      if fail.get('expr') else set()
  if names & _tainted_names(p.src):
    tags.add('stale_type_set_of_for_loop_target')
  nl = _nonlocal_written(p.src)
  if nl:
    # names assigned from a nonlocal-written variable are affected as well
    aff = set(nl)
    tree = ast.parse(p.src)
    changed = True
    while changed:
      changed = False
      for n in ast.walk(tree):
        if isinstance(n, ast.Assign) and set(q.id for q in ast.walk(n.value) if isinstance(q, ast.Name)) & aff:
          for t in n.targets:
            for q in ast.walk(t):
              if isinstance(q, ast.Name) and q.id not in aff:
                aff.add(q.id)
                changed = True
    if names & aff:
      tags.add('nonlocal_write_by_local_function_not_propagated')
  return tags


def run(tier):
  R = common.Run('C19', tier, 'exploration', ENCODED)
  n = 40 if tier == 'quick' else 600
  progs = [gen.Prog(a, s, {'hand'}) for a, s in HAND] + [gen.Prog(a, s, {'witness'}) for a, s in WITNESS]
  progs += [rand_program(R.seed + 51, i) for i in range(n)]
  pct = 25.0 if tier == 'quick' else 120.0
  known = [k['pattern'] for k in R.known]
  tasks = [('vf.e2types', 'work', {'prog': p.as_dict(), 'tmpdir': R.tmpdir, 'per_condition_timeout': pct,
                                   'per_path_timeout': 8.0, 'classifier': 'vf.checks.C19:classify',
                                   'known_patterns': known}) for p in progs]
  results = pool.run_tasks(tasks, hard_timeout=int(pct * 2 + 60),
                           stderr_path=os.path.join(R.tmpdir, 'workers.err'))
  probes = 0
  for p, r in zip(progs, results):
    r.setdefault('name', p.name)
    R.count(r)
    probes += r.get('checked', 0) or 0
    if r.get('verdict') == 'confirmed':
      R.sample({'program': p.name, 'source': p.src, 'verdict': 'confirmed', 'annotated_nodes': r.get('annotated'),
                'solver_s': r.get('solver_s')})
    for one in (r.get('tolerated') or [])[:4]:
      R.violation('C19 violated on %s: %r' % (p.name, one),
                  {'engine': 'e2types', 'program': p.src, 'args': [0, 0.5, True, 1], 'fail': one}, set(classify(p, one)))
    if r.get('verdict') == 'refuted':
      for one in (r.get('fails') or [{}])[:1]:
        R.violation('C19 violated on %s: args=%r %r' % (p.name, r.get('cex'), one),
                    {'engine': 'e2types', 'program': p.src, 'args': (r.get('cex') or [[0, 0.5, True, 1]])[0],
                     'fail': one}, set(classify(p, one)))
  cov = {
      'evaluations': len(progs),
      'distinct_nontrivial': R.counts['confirmed'] + R.counts['refuted'],
      'rule': 'one obligation per program (hand-written shapes + seeded random typed programs); for each, z3/CrossHair '
              'explores all paths over x:int, y:float, b:bool, -3<=k<=3; non-trivial = conclusive verdict',
      'type_probe_evaluations': probes,
      'outside_bounds': 'attribute/subscript element types (the truthful resolver answers "unknown"), user classes, '
                        'k outside [-3,3]',
  }
  return R.finish(cov, assumptions=[
      'truthful resolver (vf/e2types.py): literal/extern/argument types from CPython objects and annotations, operator '
      'result types computed by evaluating the operator on representative CPython values of each operand type',
      'isinstance(value, inferred type) counts as covered (declared supertype)',
  ], min_conclusive=0.5)
