"""C18 — A-normal-form transformation preserves evaluation order and yields ANF.

E1 differential: the compiled output of the REAL anf.transform (per
configuration) vs. the original function, tracer log = evaluation order, all
inputs within the bounds decided by z3. Programs the transformer rejects must
contain one of the lazy constructs it documents.
"""
import ast
import random

from vf import anfgen, common, e1, e1run, gen, pool

ENCODED = ['malt/pyct/common_transformers/anf.py', 'malt/pyct/templates.py', 'malt/pyct/transformer.py']

WITNESS = [
    ('w:later_sibling_nested', '''def f(x, n, b, xs):
  s = t(1, x) + t(2, n) * t(3, x - n)
  return s
'''),
    ('w:tuple_with_unary', '''def f(x, n, b, xs):
  return (t(14, x), -t(15, n))
'''),
    ('w:store_target_effect', '''def f(x, n, b, xs):
  o = [0, 0]
  o[t(4, 0)] = t(5, x)
  return o
'''),
]


def _has_lazy(src):
  for n in ast.walk(ast.parse(src)):
    if isinstance(n, (ast.BoolOp, ast.IfExp, ast.Lambda, ast.ListComp, ast.SetComp, ast.DictComp,
                      ast.GeneratorExp, ast.While, ast.Assert)):
      return True
    if isinstance(n, ast.Compare) and len(n.ops) > 1:
      return True
  return False


def _calls(n):
  return [c for c in ast.walk(n) if isinstance(c, ast.Call)]


def _operands(e):
  if isinstance(e, ast.BinOp):
    return [e.left, e.right]
  if isinstance(e, ast.Compare):
    return [e.left] + list(e.comparators)
  if isinstance(e, ast.Call):
    return [e.func] + list(e.args) + [k.value for k in e.keywords]
  if isinstance(e, (ast.Tuple, ast.List, ast.Set)):
    return list(e.elts)
  if isinstance(e, ast.Dict):
    out = []
    for k, v in zip(e.keys, e.values):
      out += [k, v]
    return [o for o in out if o is not None]
  if isinstance(e, ast.Subscript):
    return [e.value, e.slice]
  return []


# "Drain" loops: a while whose test is exactly one level deep (a call, an attribute, a `not`)
# and whose body holds only statements the transformer has no visitor for; the loop is the
# tail of the function. Laziness of the test cannot be preserved: the transformer must reject
# these (ValueError), never emit a loop over an undefined temporary.
DRAIN_LOOPS = [
    ('drain:call_test_pass_body', '''def f(x, n, b, xs):
  it = iter(xs + [1] * n + [0])
  while next(it):
    pass
'''),
    ('drain:not_test_continue_body', '''def f(x, n, b, xs):
  it = iter([0] * n + xs + [1])
  t(1, n)
  while not next(it):
    continue
'''),
    ('drain:tracer_test_in_branch', '''def f(x, n, b, xs):
  q = list(xs) + [0]
  if b:
    t(1, x)
  else:
    while t(2, q.pop(0)) if False else q.pop(0):
      pass
'''),
    ('drain:attribute_test', '''class _Src(object):
  def __init__(self, k):
    self.k = k
  @property
  def more(self):
    t(7, self.k)
    self.k = self.k - 1
    return self.k > 0

def f(x, n, b, xs):
  src = _Src(n)
  while src.more:
    pass
'''),
]


def classify(p, m, r):
  """Structural patterns of the two listed evaluation-order findings."""
  tags = set()
  if r.get('kind') != 'mismatch':
    return tags
  tree = ast.parse(p.src)
  for e in ast.walk(tree):
    ops = _operands(e)
    for i, a in enumerate(ops):
      if not _calls(a):
        continue
      for b in ops[i + 1:]:
        inner = [c for c in _calls(b) if c is not b] if not isinstance(b, ast.Starred) else _calls(b)
        if inner:
          tags.add('later_sibling_operand_nested_deeper_than_earlier_effectful_sibling')
  for s in ast.walk(tree):
    if isinstance(s, (ast.Assign, ast.AugAssign)):
      tgts = s.targets if isinstance(s, ast.Assign) else [s.target]
      if any(_calls(t) for t in tgts) and _calls(s.value):
        tags.add('effectful_store_target_subexpression')
  return tags


def pre_work(payload):
  """Runs the transformer natively first: rejection / shape side conditions; then E1."""
  import logging
  logging.disable(logging.WARNING)
  from vf import anfx
  prog, mode = payload['prog'], payload['mode']
  src = e1.PRELUDE + prog['src']
  try:
    mod, _ = e1.load_module(src, payload['tmpdir'], 'anfpre')
    f = getattr(mod, prog['entry'])
    try:
      bad = anfx.shape_violations(f, mode['config'])
    except ValueError as e:
      lazy = _has_lazy(prog['src'])
      return {'name': prog['name'], 'verdict': 'confirmed' if lazy else 'refuted', 'kind': 'rejected',
              'rejected': True, 'detail': 'transformer rejected the program: %s' % e,
              'module_source': None, 'cex': None}
  except Exception as e:  # pylint:disable=broad-except
    import traceback
    return {'name': prog['name'], 'verdict': 'error', 'detail': 'pre-work failed: %r %s' % (e, traceback.format_exc()[-800:])}
  r = e1.work(payload)
  r['shape'] = bad
  return r


def replay(obj):
  import logging, tempfile
  logging.disable(logging.WARNING)
  from vf import anfx
  tmp = tempfile.mkdtemp(prefix='vf_replay_')
  mod, _ = e1.load_module(e1.PRELUDE + obj['program'], tmp, 'anfpre')
  print('program   :\n' + obj['program'])
  try:
    bad = anfx.shape_violations(mod.f, obj['config'])
  except ValueError as e:
    print('transformer rejected:', e, '| lazy construct present:', _has_lazy(obj['program']))
    return 0 if _has_lazy(obj['program']) else 1
  for b in bad:
    print('shape     :', b)
  return 1 if bad else 0


def run(tier):
  R = common.Run('C18', tier, 'translation_validation', ENCODED)
  from vf import anfx
  if tier == 'quick':
    progs = anfgen.programs(160, R.seed + 41) + anfgen.programs(30, R.seed + 42, lazy=True, prefix='anflazy')
  else:
    progs = anfgen.programs(700, R.seed + 41) + anfgen.programs(150, R.seed + 42, lazy=True, prefix='anflazy')
  progs += [gen.Prog(n, s, {'witness'}) for n, s in WITNESS]
  progs += [gen.Prog(n, s, {'anf', 'lazy'}) for n, s in DRAIN_LOOPS]
  rnd = random.Random(R.seed + 43)
  tasks, meta = [], []
  bounds = {'n': 2, 'len': 1}
  pct, ppt = (20.0, 5.0) if tier == 'quick' else (90.0, 15.0)
  for p in progs:
    cfgs = ['default'] + ([rnd.choice(anfx.CONFIGS[1:])] if 'witness' not in p.tags else [])
    if 'lazy' in p.tags:
      # configurations that leave the direct operands of a lazy construct alone but name deeper
      # sub-expressions: the transformer must still reject (or preserve laziness)
      cfgs = ['default', 'call_args_only', 'call_args_that_are_calls']
    for c in cfgs:
      m = {'api': 'anf', 'config': c}
      tasks.append(('vf.checks.C18', 'pre_work', {'prog': p.as_dict(), 'mode': m, 'bounds': bounds,
                                                 'tmpdir': R.tmpdir, 'per_condition_timeout': pct,
                                                 'per_path_timeout': ppt}))
      meta.append((p, m))
  results = pool.run_tasks(tasks, hard_timeout=int(pct * 2 + 60))
  rejected = 0
  for (p, m), r in zip(meta, results):
    r.setdefault('name', p.name)
    R.count(r)
    if r.get('rejected'):
      rejected += 1
    if r.get('verdict') == 'confirmed' and not r.get('rejected'):
      R.sample({'program': p.name, 'source': p.src, 'config': m['config'], 'verdict': 'confirmed',
                'solver_s': r.get('solver_s')})
    for b in (r.get('shape') or [])[:3]:
      R.violation('ANF output shape: %s [%s]: %s' % (p.name, m['config'], b),
                  {'engine': 'checks.C18', 'program': p.src, 'config': m['config'], 'detail': b}, set())
    if r.get('verdict') == 'refuted':
      if r.get('kind') == 'rejected':
        R.violation('ANF transformer rejected a program without lazy constructs: %s' % p.name,
                    {'engine': 'checks.C18', 'program': p.src, 'config': m['config'], 'detail': r.get('detail')}, set())
      else:
        R.violation('ANF output differs from input: %s [%s] args=%r' % (p.name, m['config'], r.get('cex')),
                    {'engine': 'e1', 'kind': r.get('kind'), 'program': p.src, 'program_name': p.name,
                     'mode': m, 'bounds': bounds, 'cex': r.get('cex'), 'module_source': r.get('module_source'),
                     'detail': r.get('detail')}, classify(p, m, r))
  cov = {
      'programs': len(progs),
      'disagreements_checked': R.counts['refuted'],
      'configurations': anfx.CONFIGS,
      'rejected_as_documented': rejected,
      'bounds': {'n': '0..2', 'len(xs)': '<=1', 'x': 'unbounded int'},
      'outside_bounds': 'user identifiers of the form tmp_1xxx (DummyGensym ignores program symbols: documented TODO); '
                        'expressions matching the two listed evaluation-order findings are only run as witnesses',
  }
  return R.finish(cov, assumptions=[
      'tracer log order is the evaluation order',
      'flat program family: effectful operands are direct tracer calls with leaf arguments, store targets are effect free',
  ], min_conclusive=0.5)
