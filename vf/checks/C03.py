"""C03 — emitted operator calls obey the operator calling contract.

Engine E1 + contract backend: the default operators are wrapped (through
get_extra_locals) so that EVERY dynamic invocation of if_stmt/while_stmt/
for_stmt/and_/or_/if_exp, on every path z3 can reach inside the bounds, checks
the documented contract against the live caller frame (sys._getframe(1)):
equal lengths, position-by-position denotation (each symbol name is evaluated
in the enclosing function before and after set_state(sentinels)), idempotent
read, write-back neutrality, callback arities, 0<=nouts<=len, loop options.
"""
import random

from vf import common, e1run, gen
from vf.checks import C01

ENCODED = [
    'malt/converters/control_flow.py', 'malt/converters/directives.py',
    'malt/operators/control_flow.py', 'malt/operators/conditional_expressions.py',
    'malt/operators/logical.py', 'malt/operators/variables.py', 'malt/lang/directives.py',
]

MODE = {'api': 'backend', 'backend': 'contract', 'recursive': True, 'post': 'contract'}

OPTS = ['parallel_iterations', 'swap_memory', 'maximum_iterations']

# an input-only simple variable whose name sorts BEFORE a composite output of the same statement
OUTPUT_ORDER = [
    ('c3:input_only_before_composite', '''def f(x, n, b, xs):
  stats = O()
  hist = {'n': 5}
  scale = 2
  d = 1
  if x > 1:
    scale = scale * 2
    stats.v = stats.v + scale
  if b:
    d = d + x
    hist['n'] = hist['n'] + d
  for i in range(n):
    if i > x:
      aa = stats.w
      aa = aa + i
      stats.w = aa
  return (stats.v, stats.w, hist['n'])
'''),
]


def directive_program(seed, idx):
  """Nested loops, some carrying set_loop_options directives with distinct values."""
  r = random.Random(seed * 7919 + idx)
  loop_opts, iter_names = {}, {}
  counter = [0]

  def loop(depth, ind):
    counter[0] += 1
    lid = counter[0]
    pad = '  ' * ind
    lines = []
    kind = r.choice(['for', 'forxs', 'while', 'fortuple'])
    if kind == 'for':
      v = 'i%d' % lid
      lines.append('%sfor %s in range(n):' % (pad, v))
      iter_names[lid] = v
    elif kind == 'forxs':
      v = 'e%d' % lid
      lines.append('%sfor %s in xs:' % (pad, v))
      iter_names[lid] = v
    elif kind == 'fortuple':
      v, u = 'j%d' % lid, 'e%d' % lid
      lines.append('%sfor %s, %s in enumerate(xs):' % (pad, v, u))
      iter_names[lid] = '(%s, %s)' % (v, u)
    else:
      v = 'w%d' % lid
      lines.append('%s%s = 0' % (pad, v))
      lines.append('%swhile %s < n:' % (pad, v))
    body = []
    if r.random() < 0.6:
      ks = r.sample(OPTS, r.randint(1, 2))
      o = dict((k, 1000 * lid + j) for j, k in enumerate(ks))
      loop_opts[lid] = o
      body.append('malt.experimental.set_loop_options(%s)' % ', '.join(
          '%s=%d' % kv for kv in sorted(o.items())))
    body.append("t('loop', %d)" % lid)
    if kind == 'while':
      body.append('%s = %s + 1' % (v, v))
    body.append('a = a + %d' % lid)
    lines += ['%s  %s' % (pad, b) for b in body]
    if depth < 3 and r.random() < 0.7:
      if r.random() < 0.5:
        lines.append('%s  if a > x:' % pad)
        lines += loop(depth + 1, ind + 2)
      else:
        lines += loop(depth + 1, ind + 1)
    if r.random() < 0.4:
      lines.append('%s  if a > x + %d:' % (pad, lid))
      lines.append('%s    %s' % (pad, r.choice(['break', 'continue'])))
    lines.append('%s  o.v = o.v + 1' % pad)
    return lines

  body = ['  a = 0', '  o = O()'] + loop(1, 1)
  if r.random() < 0.6:
    body += loop(1, 1)
  body.append('  return (a, o.v)')
  src = 'def f(x, n, b, xs):\n' + '\n'.join(body) + '\n'
  p = gen.Prog('dir:%d:%d' % (seed, idx), src, {'directives'})
  p.loop_opts = loop_opts
  p.iter_names = iter_names
  return p


def run(tier):
  R = common.Run('C03', tier, 'translation_validation', ENCODED)
  rnd = random.Random(R.seed)
  sk = gen.skeletons(2)
  if tier == 'quick':
    progs = rnd.sample(sk, 70) + gen.random_programs(40, R.seed + 3)
    ndir = 25
  else:
    sk3 = [p for p in gen.skeletons(3) if p.name.count('>') == 2]
    progs = sk + rnd.sample(sk3, 150) + gen.random_programs(200, R.seed + 3)
    ndir = 100
  progs += [gen.Prog(n, s, {'extra'}, C01.EXTRA_GLOBS.get(n)) for n, s in C01.EXTRA]
  progs += [gen.Prog(n, s, {'extra'}) for n, s in OUTPUT_ORDER]
  from vf import exotic
  progs += exotic.programs()
  dirs = [directive_program(R.seed, i) for i in range(ndir)]
  progs += dirs

  def mode_for(p):
    m = dict(MODE)
    if 'directives' in p.tags:
      m['loop_opts'] = p.loop_opts
      m['iter_names'] = p.iter_names
    return [m]

  bounds = {'n': 3, 'len': 2}
  pct, ppt = (20.0, 5.0) if tier == 'quick' else (90.0, 15.0)
  results, stats = e1run.run_family(
      R, progs, None, bounds, pct, ppt, C01.classify, mode_for=mode_for,
      title='operator calling contract violated (or behaviour differs)')
  cov = {
      'programs': len(progs),
      'directive_programs': len(dirs),
      'disagreements_checked': R.counts['refuted'],
      'bounds': {'n': '0..3', 'len(xs)': '<=2', 'x': 'unbounded int', 'per_condition_timeout_s': pct},
      'contract_checked_at': 'every dynamic operator invocation on every explored path',
      'outside_bounds': 'that the RIGHT variables are outputs is C02; programs not enumerated',
  }
  return R.finish(cov, assumptions=[
      'the contract is the one of g3doc/reference/operators.md as transcribed in vf/backends.py:_contract',
      'loops are identified dynamically by a tracer call t("loop", id) that opens every generated loop body',
      'sys._getframe(1) of the operator is the function containing the emitted call',
  ])
