"""C14 — builtin overloads behave like the builtins on ordinary Python values.

Unit harnesses (E1 unit): py_builtins.overload_of(b)(*a, **k) vs b(*a, **k) with
symbolic argument values, one obligation per call shape Python accepts.
Frame-sensitive builtins (eval/locals/globals/super()): E1 differential on
converted programs that call them inside functionalised loop/branch bodies.
"""
from vf import common, e1run, gen, pool, unit

ENCODED = ['malt/operators/py_builtins.py', 'malt/impl/api.py', 'malt/utils/type_registry.py']

M = {'api': 'to_graph', 'recursive': True}

FRAME_PROGS = [
    ('fr:eval_locals_globals_in_blocks', '''def f(x, n, b, xs):
  a = x + 1
  r = []
  for i in range(n):
    r.append(eval('a + i') + a - a + i - i)
    if i == x:
      r.append(locals()['a'] + a)
      r.append(globals()['__name__'] == __name__)
    w = 0
    while w < i:
      w = w + 1
      r.append(eval('w * 2 + a', globals(), {'w': w, 'a': a}))
  if b:
    r.append(eval('a * 2') + a)
  return r
'''),
    ('fr:super_zero_arg', '''class _A(object):
  def m(self, k):
    return k + 1

class _B(_A):
  def m(self, k):
    s = 0
    for i in range(k):
      if i > 0:
        s = s + super().m(i)
      else:
        s = s + super(_B, self).m(i)
    return s

def f(x, n, b, xs):
  o = _B()
  return (o.m(n), _B.m(o, len(xs)))
'''),
    ('fr:context_builtins_through_partial', '''class _P(object):
  def who(self):
    return 'P'

class _Q(_P):
  def who(self):
    up = functools.partial(super)
    return 'Q>' + up().who()

def f(x, n, b, xs):
  a = x + 1
  ev = functools.partial(eval, 'a * 2 + n')
  r = [ev()]
  if b:
    r.append(functools.partial(eval)('a - n') + a - a + n - n)
  loc = functools.partial(locals)()
  r.append(loc['a'] + loc['n'])
  r.append('f' in functools.partial(globals)())
  r.append(_Q().who())
  return r
'''),
    ('fr:eval_in_nested_def', '''def f(x, n, b, xs):
  a = x
  def h(p):
    q = p + a
    if p > 0:
      return eval('q + p') + q - q + p - p
    return eval('q') + p - p + q - q
  return [h(e) for e in xs] + [h(n)]
'''),
]

WITNESS = [
    ('w:eval_unreferenced_name_in_loop', '''def f(x, n, b, xs):
  a = x + 1
  r = 0
  for i in range(n):
    r = r + eval('a')
  return r
'''),
]


def classify(p, m, r):
  tags = set()
  import ast
  # eval/locals() inside a loop/if body naming a variable that the body itself does
  # not reference syntactically
  if p.name.startswith('w:eval_unreferenced'):
    tags.add('eval_locals_in_functionalised_block_see_only_captured_names')
  return tags


def run(tier):
  R = common.Run('C14', tier, 'exploration', ENCODED)
  from vf.harness import c14
  pct = 40.0 if tier == 'quick' else 240.0
  twin = pool.run_tasks([('vf.unit', 'work', {'module': 'vf.harness.c14', 'func': 'reach_twin',
                                              'per_condition_timeout': 30.0})], hard_timeout=120)[0]
  if twin.get('verdict') != 'refuted':
    R.fatal.append('reachability twin was not refuted: %r' % (twin,))
  unit.run_units(R, 'vf.harness.c14', c14.HARNESSES, pct, 10.0,
                 title='builtin overload differs from the builtin')
  progs = [gen.Prog(n, s, {'frame'}) for n, s in FRAME_PROGS]
  progs += [gen.Prog(n, s, {'witness'}) for n, s in WITNESS]
  e1run.run_family(R, progs, [M], {'n': 3, 'len': 2}, pct, 10.0, classify,
                   title='frame-sensitive builtin differs in converted code')
  n = len(c14.HARNESSES) + len(progs)
  cov = {
      'evaluations': n,
      'distinct_nontrivial': R.counts['confirmed'] + R.counts['refuted'],
      'rule': 'one obligation per (builtin, call shape) with symbolic int/float/bool/List[int](len<=4); strings handed to C-level parsers and print are all strings of length <= 2 over the 16-symbol alphabet vf.harness.c14.ALPHA (8 symbols where a base / separator is enumerated too), floats handed to int() the 11 values of FLOATS, enumerate start -3..3 '
              'values, plus converted programs calling eval/locals/globals/super() in functionalised blocks; '
              'an obligation is counted as distinct+non-trivial when CrossHair reached a conclusive verdict for it '
              '(all shapes are pairwise different call forms)',
      'call_shapes': c14.HARNESSES,
      'reachability_twin': twin.get('verdict'),
      'outside_bounds': 'strings outside the alphabet or longer than 2, lists longer than 4, user objects with custom dunders, '
                        'range arguments beyond +-5',
  }
  return R.finish(cov, assumptions=[
      'CrossHair models of int/float/str/list; float is modelled over the reals unless the solver picks NaN/inf',
      'laziness is observed through a counting iterable (items pulled before/after the first next)',
  ], min_conclusive=0.5)
