"""C06 — reaching definitions and defined-on-entry sets are sound."""
from vf import e2run

ENCODED = ['malt/pyct/static_analysis/reaching_definitions.py', 'malt/pyct/cfg.py',
           'malt/pyct/static_analysis/activity.py']


def _zero_trip(p, fail):
  """The variable is a for-loop target, the real writer is an earlier plain assignment
  and the only reported definition is a loop header (iter expression)."""
  import ast
  name = fail.get('name')
  iters = []
  for n in ast.walk(ast.parse(p.src)):
    if isinstance(n, ast.For) and any(isinstance(t, ast.Name) and t.id == name for t in ast.walk(n.target)):
      iters.append(ast.unparse(n.iter))
  return bool(iters) and bool(fail.get('reported')) and all(r in iters for r in fail['reported'])


def _in_default_expr(p, fail):
  """The read occurrence (numbered in ast.walk order, as vf.e2.number does) lies inside a
  default-value expression of a nested function definition."""
  import ast
  occ = fail.get('read_occ')
  if occ is None:
    return False
  tree = ast.parse(p.src)
  nodes = list(ast.walk(tree))
  if occ >= len(nodes):
    return False
  target = nodes[occ]
  for fn in ast.walk(tree):
    if isinstance(fn, (ast.FunctionDef, ast.Lambda)):
      for d in list(fn.args.defaults) + [k for k in fn.args.kw_defaults if k is not None]:
        if any(n is target for n in ast.walk(d)):
          return True
  return False


def classify(p, fail):
  tags = set()
  if fail.get('kind') == 'free_variable_read_in_nested_function':
    tags.add('free_variable_read_in_nested_function')
  if fail.get('kind') == 'actual_definition_not_reaching' and _in_default_expr(p, fail):
    tags.add('read_in_default_expression_of_nested_function')
  if fail.get('kind') == 'actual_definition_not_reaching' and _zero_trip(p, fail):
    tags.add('for_target_definition_killed_on_zero_trip_exit')
  return tags


def run(tier):
  return e2run.run_property('C06', tier, ENCODED, classify,
                            extra_assumptions=['each Definition is mapped to its CFG node through a definition_factory '
                                               'that reads `node`/`s` from the frame of Analyzer.visit_node',
                                               'writes made by OTHER function activations (nonlocal writes in callees) are '
                                               'outside: the analysis is intraprocedural (documented limit)'],
                            outside='attributes/subscripts (composite names); except-clause names')
