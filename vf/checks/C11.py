"""C11 — generated names never capture, shadow or clash with user names.

(1) E1 differential on C01-class programs whose identifiers are renamed
    adversarially to the converter's own vocabulary in every role (assigned-only,
    read-only, parameter, global, free variable, nested function name, loop target).
(2) Unit harness on naming.Namer.new_symbol with symbolic namespace / reserved /
    previously generated subsets of a 12-name universe.
(3) Concrete side condition: names returned by new_symbol during the real
    conversion vs. identifiers of the original program.
"""
import ast
import random

from vf import common, e1, e1run, gen, pool, unit
from vf.checks import C01

ENCODED = ['malt/pyct/naming.py', 'malt/pyct/static_analysis/activity.py', 'malt/converters/control_flow.py',
           'malt/converters/return_statements.py', 'malt/converters/break_statements.py',
           'malt/converters/continue_statements.py', 'malt/converters/functions.py',
           'malt/converters/lists.py', 'malt/pyct/transpiler.py', 'malt/impl/api.py']

VOCAB = ['do_return', 'retval_', 'break_', 'continue_', 'fscope', 'lscope', 'get_state', 'set_state',
         'if_body', 'else_body', 'loop_body', 'loop_test', 'extra_test', 'itr', 'vars_',
         'do_return_1', 'retval__1', 'get_state_1', 'loop_body_1', 'fscope_1', 'break__1', 'ag__f',
         'inner_factory', 'outer_factory', 'block_vars']
KEEP = {'t', 'O', 'CM', 'UErr', 'UErr2', 'helper', 'functools', 'range', 'len', 'abs', 'min', 'max',
        'int', 'sum', 'enumerate', 'zip', 'f', 'G', 'malt', 'True', 'False', 'None', 'chk', 'probe'}

M = {'api': 'to_graph', 'recursive': True}


class _Rename(ast.NodeTransformer):

  def __init__(self, mapping):
    self.m = mapping

  def visit_Name(self, node):
    node.id = self.m.get(node.id, node.id)
    return node

  def visit_arg(self, node):
    node.arg = self.m.get(node.arg, node.arg)
    return node

  def visit_FunctionDef(self, node):
    if node.name != 'f' and not getattr(node, '_vf_method', False):
      node.name = self.m.get(node.name, node.name)
    self.generic_visit(node)
    return node

  def visit_ClassDef(self, node):
    # methods and class attributes are reached through attribute access, which is not renamed
    for st in node.body:
      if isinstance(st, ast.FunctionDef):
        st._vf_method = True
    self.generic_visit(node)
    return node

  def visit_Nonlocal(self, node):
    node.names = [self.m.get(n, n) for n in node.names]
    return node

  def visit_Global(self, node):
    node.names = [self.m.get(n, n) for n in node.names]
    return node


def adversarial(prog, rnd):
  """Renames the user identifiers of f (and its nested functions) to vocabulary names and
  adds a write-only and a read-only (module global) vocabulary name."""
  tree = ast.parse(prog.src)
  fnode = [n for n in tree.body if isinstance(n, ast.FunctionDef) and n.name == 'f'][0]
  # only names that f (or a function nested in it) BINDS are renamed; references to
  # module-level helpers and builtins keep their meaning
  idents = set()
  class_level = set()
  for n in ast.walk(fnode):
    if isinstance(n, ast.ClassDef):
      for st in n.body:
        if isinstance(st, ast.FunctionDef):
          class_level.add(st.name)
        for tg in getattr(st, 'targets', []) + ([st.target] if isinstance(st, (ast.AnnAssign, ast.AugAssign)) else []):
          if isinstance(tg, ast.Name):
            class_level.add(tg.id)
  for n in ast.walk(fnode):
    if isinstance(n, ast.Name) and isinstance(n.ctx, (ast.Store, ast.Del)):
      idents.add(n.id)
    elif isinstance(n, ast.arg):
      idents.add(n.arg)
    elif isinstance(n, ast.FunctionDef) and n is not fnode:
      idents.add(n.name)
    elif isinstance(n, (ast.Global,)):
      idents -= set(n.names)
  idents -= KEEP
  idents -= class_level      # class attributes / methods: accessed as attributes, never renamed
  idents = sorted(idents)
  names = rnd.sample(VOCAB, min(len(VOCAB), len(idents) + 2))
  mapping = dict(zip(idents, names))
  extra = names[len(idents):]
  _Rename(mapping).visit(fnode)
  params = [(mapping.get(p, p), ty) for p, ty in prog.params]
  globs = dict(prog.globs)
  body_prefix = []
  if extra:
    body_prefix.append(ast.parse('%s = 5' % extra[0]).body[0])              # write-only local
  if len(extra) > 1:
    globs[extra[1]] = 3                                                      # read-only global
    a_init = any(isinstance(st, ast.Assign) and any(isinstance(tg, ast.Name) and tg.id == mapping.get('a', 'a')
                                                     for tg in st.targets) for st in fnode.body[:4])
    if a_init and 'exotic' not in prog.tags:
      body_prefix.append(ast.parse('%s = %s + %s - %s' % (mapping.get('a', 'a'), mapping.get('a', 'a'),
                                                          extra[1], extra[1])).body[0])
    else:
      body_prefix.append(ast.parse('ro_probe_ = %s' % extra[1]).body[0])
  # keep `global` statements first
  k = 0
  while k < len(fnode.body) and isinstance(fnode.body[k], ast.Global):
    k += 1
  # the prefix that reads `a` must come after a's initialisation (first two statements)
  if 'exotic' in prog.tags:
    # (after a leading docstring, if any)
    k += 1 if (k < len(fnode.body) and isinstance(fnode.body[k], ast.Expr)
               and isinstance(fnode.body[k].value, ast.Constant)) else 0
    fnode.body[k:k] = body_prefix
  else:
    fnode.body[k + 2:k + 2] = body_prefix
  ast.fix_missing_locations(tree)
  p = gen.Prog('adv:' + prog.name, ast.unparse(tree) + '\n', set(prog.tags) | {'adversarial'}, globs, params)
  p.mapping = mapping
  p.extra = extra
  return p


# The converted function is itself a closure; a nested helper rebinds (through nonlocal) an
# enclosing variable whose name is one the converter generates, and the converted function's
# own body never mentions that name.
def closure_programs():
  out = []
  for i, nm in enumerate(['do_return', 'retval_', 'break_', 'continue_', 'fscope', 'if_body', 'loop_body',
                          'get_state', 'set_state', 'itr']):
    src = '''def _mk():
  %(N)s = 0
  other = 7
  def f(x, n, b, xs):
    def reset():
      nonlocal %(N)s
      %(N)s = 0
    def bump(k):
      nonlocal %(N)s
      %(N)s = %(N)s + k
      return %(N)s
    reset()
    a = 0
    w = 0
    while w < n:
      w = w + 1
      if bump(w) > x + 5:
        break
      if w == x:
        continue
      a = a + t(1, w)
    for e in xs:
      if e > x:
        return (a, bump(0), other)
      a = a + bump(e)
    return (a, bump(0), other)
  return f

f = _mk()
''' % {'N': nm}
    out.append(gen.Prog('clo:%s' % nm, src, {'closure_role'}))
  return out


# Vocabulary names in roles that are bound but never READ: parameters of lambdas / nested
# functions (keyword-only too) and comprehension targets. A call inside such a scope is
# rewritten to `ag__.converted_call(..., <function scope name>)`, so a generated scope name
# equal to the unread user name would be captured there.
def param_role_programs():
  """One role per program: a second occurrence of the name in another role (for instance as
  an ast.Name) would reserve it by that route and hide a gap in the role under test."""
  roles = {
      'lambda_param': ('  k = lambda %(N)s, v: helper(v, 1) + t(1, v)', 'k(i, i)'),
      'lambda_kwonly': ('  k = lambda v, *, %(N)s=0: helper(v, 1) + t(1, v)', 'k(i)'),
      'lambda_vararg': ('  k = lambda v, *%(N)s: helper(v, 1) + t(1, v)', 'k(i, 7)'),
      'lambda_kwarg': ('  k = lambda v, **%(N)s: helper(v, 1) + t(1, v)', 'k(i, z=7)'),
      'def_param': ('  def k(%(N)s, v):\n    if v > x:\n      return helper(v, 2)\n    return v', 'k(0, i)'),
      'def_kwonly': ('  def k(v, *, %(N)s=None):\n    if v > x:\n      return helper(v, 2)\n    return v', 'k(i)'),
      'def_posonly': ('  def k(%(N)s, /, v):\n    if v > x:\n      return helper(v, 2)\n    return v', 'k(0, i)'),
      'comp_target': ('  k = lambda v: sum([helper(v, 0) for %(N)s in (1, 2)])', 'k(i)'),
  }
  out = []
  for nm in ['fscope', 'lscope', 'fscope_1', 'do_return']:
    for role, (defn, call) in sorted(roles.items()):
      src = 'def helper(p, q):\n  return p + q\n\ndef f(x, n, b, xs):\n' + (defn % {'N': nm}) + '''
  a = 0
  for i in range(n):
    a = a + %(CALL)s
  if b:
    return (a, 0)
  w = 0
  while w < n:
    w = w + 1
    if w == x:
      break
  return (a, w)
''' % {'CALL': call}
      out.append(gen.Prog('par:%s:%s' % (role, nm), src, {'param_role'}))
  return out


# A nested function declares a module global whose name the enclosing function uses for a
# LOCAL (and the converter's vocabulary likes, too): the local must stay a local.
def nested_global_programs():
  out = []
  for nm in ['do_return', 'retval_', 'fscope', 'counter']:
    src = '''def f(x, n, b, xs):
  %(N)s = 0
  def bump():
    global %(N)s
    %(N)s = %(N)s + 100
    return %(N)s
  for i in range(n):
    %(N)s = %(N)s + i
    if i > x:
      %(N)s = %(N)s + 1
  r = bump() if b else -1
  return (%(N)s, r)
''' % {'N': nm}
    out.append(gen.Prog('ngl:%s' % nm, src, {'nested_global'}, {nm: 5}))
  return out


# Numbered variants of generated names, used while the unnumbered stem is NOT a user name, in
# a function that needs the stem several times.
def numbered_variant_programs():
  out = []
  shapes = {
      'param': ('def f(x, n, b, %(N)s):', '', '%(N)s'),
      'local': ('def f(x, n, b, xs):', '  %(N)s = len(xs) + 3\n', '%(N)s'),
      'global': ('def f(x, n, b, xs):', '', '%(N)s'),
  }
  for nm in ['if_body_1', 'loop_body_1', 'get_state_1', 'set_state_2', 'do_return_1', 'break__1']:
    for role, (hdr, pre, use) in sorted(shapes.items()):
      src = (hdr + '\n' + pre + '''  a = 0
  if x > 0:
    a = a + 1
  else:
    a = a - 1
  if b:
    a = a + 2
  w = 0
  while w < n:
    w = w + 1
    if w == x:
      continue
    if w > 3:
      break
    a = a + w
  def h(p):
    if p > x:
      return (p, USE)
    return (0, USE)
  return (a, USE, h(n))
''').replace('USE', use) % {'N': nm}
      params = [('x', 'int'), ('n', 'int'), ('b', 'bool'), (nm if role == 'param' else 'xs', 'List[int]')]
      out.append(gen.Prog('num:%s:%s' % (role, nm), src, {'numbered', 'exotic'}, {nm: 41} if role == 'global' else None, params))
  return out


# A user variable named like the injected operator module. Listed known finding: re-observed
# on every run through this witness.
WITNESS = [
    ('w:user_local_named_ag__', '''def f(x, n, b, xs):
  ag__ = 5
  a = 0
  for i in range(n):
    if i > x:
      a = a + ag__
  return a
'''),
]


def _binds_ag(src):
  for n in ast.walk(ast.parse(src)):
    if (isinstance(n, ast.Name) and n.id == 'ag__') or (isinstance(n, ast.arg) and n.arg == 'ag__'):
      return True
  return False


def classify(p, m, r):
  tags = set(C01.classify(p, m, r))
  if r.get('kind') in ('mismatch', 'conversion_error') and _binds_ag(p.src):
    tags.add('user_identifier_equal_to_injected_module_alias_ag__')
  return tags


def names_work(payload):
  """Concrete side condition: generated names vs identifiers of the program."""
  import logging
  logging.disable(logging.WARNING)
  import os, tempfile
  tempfile.tempdir = payload['tmpdir']
  from malt.pyct import naming, transpiler
  got = {}
  cur = [None]
  orig = naming.Namer.new_symbol
  orig_tf = transpiler.GenericTranspiler.transform_function

  def rec(self, name_root, reserved_locals):
    r = orig(self, name_root, reserved_locals)
    import sys
    # only names that become locals of the converted function: the converters' calls
    # (transpiler.py names the enclosing factories and the function itself, which live
    # in outer scopes and cannot capture a user local)
    if sys._getframe(1).f_globals.get('__name__', '').startswith('malt.converters'):
      got.setdefault(cur[0], set()).add(r)
    return r

  def tf(self, fn, user_context):
    prev = cur[0]
    cur[0] = getattr(fn, '__name__', None)
    try:
      return orig_tf(self, fn, user_context)
    finally:
      cur[0] = prev

  naming.Namer.new_symbol = rec
  transpiler.GenericTranspiler.transform_function = tf
  try:
    src = e1.module_source(payload['prog'], payload['mode'], {'n': 3, 'len': 2})
    try:
      e1.load_module(src, payload['tmpdir'], 'names')
    except Exception as e:  # pylint:disable=broad-except
      return {'verdict': 'inconclusive', 'detail': 'conversion failed: %r' % (e,), 'name': payload['prog']['name']}
  finally:
    naming.Namer.new_symbol = orig
    transpiler.GenericTranspiler.transform_function = orig_tf
  clash = []
  for fnode in ast.parse(payload['prog']['src']).body:
    if not isinstance(fnode, ast.FunctionDef):
      continue
    # Scope-exact comparison only: with nested user scopes (def/lambda/comprehension) a
    # name may legitimately be reused in an inner scope, so those programs are left to
    # the differential check.
    if any(isinstance(n, (ast.Lambda, ast.ListComp, ast.SetComp, ast.DictComp, ast.GeneratorExp))
           or (isinstance(n, ast.FunctionDef) and n is not fnode) for n in ast.walk(fnode)):
      continue
    idents = set()
    for n in ast.walk(fnode):
      if isinstance(n, ast.Name):
        idents.add(n.id)
      elif isinstance(n, ast.arg):
        idents.add(n.arg)
      elif isinstance(n, ast.FunctionDef):
        idents.add(n.name)
    # the state setter's parameter (root vars_) is local to a generated function that
    # contains no user code, so it cannot be seen by or capture a user name
    clash += sorted(n for n in got.get(fnode.name, set()) & idents if not n.startswith('vars_'))
  return {'verdict': 'refuted' if clash else 'confirmed', 'clash': clash,
          'generated': sorted(set().union(*got.values()) if got else [])[:30],
          'name': payload['prog']['name']}


def replay(obj):
  import tempfile
  tmp = tempfile.mkdtemp(prefix='vf_replay_')
  r = names_work({'prog': obj['prog'], 'mode': obj['mode'], 'tmpdir': tmp})
  print('program   :\n' + obj['prog']['src'])
  print('generated names that equal user identifiers:', r.get('clash'))
  return 1 if r.get('clash') else 0


def run(tier):
  R = common.Run('C11', tier, 'translation_validation', ENCODED)
  rnd = random.Random(R.seed + 23)
  sk = gen.skeletons(2)
  if tier == 'quick':
    base = rnd.sample(sk, 60) + gen.random_programs(40, R.seed + 7, gen.ALL_FEATURES - {'global'})
  else:
    sk3 = [p for p in gen.skeletons(3) if p.name.count('>') == 2]
    base = sk + rnd.sample(sk3, 150) + gen.random_programs(200, R.seed + 7, gen.ALL_FEATURES - {'global'})
  base += [gen.Prog(n, s, {'extra'}, C01.EXTRA_GLOBS.get(n)) for n, s in C01.EXTRA if 'global' not in n]
  from vf import exotic
  base += [p for p in exotic.programs() if 'global' not in p.name]
  progs = [adversarial(p, rnd) for p in base] + closure_programs() + param_role_programs() + nested_global_programs()
  progs += numbered_variant_programs()
  progs += [gen.Prog(n, src, {'witness'}) for n, src in WITNESS]
  bounds = {'n': 3, 'len': 2}
  pct, ppt = (15.0, 4.0) if tier == 'quick' else (60.0, 10.0)
  e1run.run_family(R, progs, [M], bounds, pct, ppt, classify,
                   title='converted function differs from original under adversarial identifiers')
  # concrete side condition
  tasks = [('vf.checks.C11', 'names_work', {'prog': p.as_dict(), 'mode': M, 'tmpdir': R.tmpdir}) for p in progs]
  clashes = 0
  for p, r in zip(progs, pool.run_tasks(tasks, hard_timeout=120)):
    if r.get('verdict') == 'refuted':
      clashes += 1
      R.violation('generated name equals a user identifier in %s: %r' % (p.name, r.get('clash')),
                  {'engine': 'checks.C11', 'prog': p.as_dict(), 'mode': M, 'clash': r.get('clash')}, set())
  R.notes.append('concrete side condition (not a solver result): generated names vs user identifiers, '
                 '%d programs, %d clashes' % (len(progs), clashes))
  from vf.harness import c11
  twin = pool.run_tasks([('vf.unit', 'work', {'module': 'vf.harness.c11', 'func': 'reach_twin',
                                              'per_condition_timeout': 30.0})], hard_timeout=120)[0]
  if twin.get('verdict') != 'refuted':
    R.fatal.append('reachability twin was not refuted: %r' % (twin,))
  unit.run_units(R, 'vf.harness.c11', c11.HARNESSES, 120.0 if tier == 'quick' else 600.0, 20.0,
                 title='Namer.new_symbol returned a taken or malformed name')
  cov = {
      'programs': len(progs),
      'disagreements_checked': R.counts['refuted'],
      'vocabulary': VOCAB,
      'namer_harnesses': c11.HARNESSES,
      'bounds': {'n': '0..3', 'len(xs)': '<=2', 'namer_universe': '5 names per root (root, root_1..3, other) x namespace/reserved subsets', 'previously_generated': '<=3'},
      'outside_bounds': 'a user variable named ag__ (the fixed name of the injected operator module); builtin shadowing',
  }
  return R.finish(cov, assumptions=[
      'identifier roles are assigned by seeded random renaming of every user identifier of the program to the '
      'converter vocabulary, plus one write-only local and one read-only module global',
      'a captured name changes the observable behaviour for some input (z3 searches all inputs within bounds)',
  ], min_conclusive=0.5)
