"""C08 — scope (activity) analysis matches Python's own binding rules."""
from vf import e2run

ENCODED = ['malt/pyct/static_analysis/activity.py', 'malt/pyct/qual_names.py',
           'malt/pyct/static_analysis/annos.py', 'malt/pyct/anno.py']


def classify(p, fail):
  return set()


def run(tier):
  return e2run.run_property('C08', tier, ENCODED, classify,
                            extra_assumptions=['first conjunct (per-function name classes vs CPython symtable) is a concrete '
                                               'set comparison per program, reported as a side condition; the solver-explored '
                                               'part is the per-executed-statement read/modified/deleted inclusion'],
                            outside='comprehension targets, except-clause names, lambda bodies')
