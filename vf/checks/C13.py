"""C13 — call wrapper is transparent, obeys the conversion policy, falls back safely.

Unit harnesses on the real api.converted_call (vf/harness/c13.py):
  transparency  one obligation per (callable kind, call shape); argument values
                symbolic; obs(converted_call(f, args, kwargs)) == obs(f(*args, **kwargs))
                incl. invocation log, exceptions and argument mutation
  policy        per callable kind: recursive/user_requested/internal_convert_user_code
                bits x ctx status, solver-exhausted; "a conversion was attempted"
                must equal the documented decision table
  fall-back     fault stage (20 pipeline stages) x fault class (7) x value,
                solver-exhausted: result equals the direct call, target ran once,
                one warning, failure remembered, second call enters no stage
"""
from vf import common, pool, unit

ENCODED = ['malt/impl/api.py', 'malt/impl/conversion.py', 'malt/core/config.py',
           'malt/core/config_lib.py', 'malt/core/ag_ctx.py', 'malt/pyct/inspect_utils.py',
           'malt/operators/py_builtins.py', 'malt/core/unsupported_features_checker.py']


def run(tier):
  R = common.Run('C13', tier, 'fault_enumeration', ENCODED)
  from vf.harness import c13
  pct = 30.0 if tier == 'quick' else 180.0
  twin = pool.run_tasks([('vf.unit', 'work', {'module': 'vf.harness.c13', 'func': 'reach_twin',
                                              'per_condition_timeout': 60.0})], hard_timeout=300)[0]
  if twin.get('verdict') != 'refuted':
    R.fatal.append('reachability twin was not refuted: %r' % (twin,))
  unit.run_units(R, 'vf.harness.c13', [(n, (n,)) for n in c13.TRANSPARENT], pct, 10.0,
                 title='converted_call is not transparent', setup='prewarm')
  unit.run_units(R, 'vf.harness.c13', c13.POLICY, 120.0, 30.0,
                 title='conversion policy differs from the documented decision table')
  unit.run_units(R, 'vf.harness.c13', c13.POLICY2, 240.0, 30.0,
                 title='a context-dependent conversion decision was remembered (two-call history)')
  unit.run_units(R, 'vf.harness.c13', c13.FALLBACK, 120.0, 60.0,
                 title='conversion failure is not handled by a safe, remembered fall-back')
  n_policy = len(c13.POLICY) * 24
  n_fault = c13.N_STAGES * c13.N_FAULTS * 3
  cov = {
      'evaluations': len(c13.TRANSPARENT) + n_policy + n_fault,
      'distinct_nontrivial': n_fault,
      'rule': 'fault cases = 20 pipeline stages x 7 exception classes x 3 argument values (all distinct, each '
              'injects a different failure); policy cases = %d kinds x 8 option values x 3 statuses; transparency = '
              '%d (kind, shape) obligations with symbolic int values' % (len(c13.POLICY), len(c13.TRANSPARENT)),
      'fault_stages': ['%s.%s' % (m.__name__, a) for m, a in c13.STAGES],
      'fault_classes': [f.__name__ for f in c13.FAULTS],
      'exhaustive_fault_space': True,
      'reachability_twin': twin.get('verdict'),
      'outside_bounds': 'wrapt (not installed), TF plugins, user-requested conversion of allow-listed targets '
                        '(generator functions, malt-internal functions): unspecified by the documentation',
  }
  return R.finish(cov, assumptions=[
      'decision table transcribed from g3doc/reference/functions.md "Function conversion rules" (vf/harness/c13.py:expected_conversion)',
      'a fault is an exception raised by the patched stage entry point; stages are the module-level entry points '
      'called by PyToPy.transform_ast / transform_function / loader',
      'hash() of ConversionOptions runs natively (environment primitive)',
  ])
