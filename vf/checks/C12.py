"""C12 — errors in converted code are reported at the original source location.

Engine E1 with the error postcondition (vf/backends.py:post_errors): programs of
the C01 class get ONE failing statement injected at a random statement position
(any function of the program: f, a module-level callee, a nested def), guarded by
a data-dependent condition. z3 chooses the inputs (which statement fails, in
which iteration). The exception leaving malt.convert(...)(f)(*args) must have
the type required by the documented re-creation rules, carry the original
message, and its ag_error_metadata.translated_stack restricted to the user file
must equal the original traceback's user frames (one per separately converted
function, innermost first).
"""
import random

from vf import common, e1run, gen, pool, unit

ENCODED = ['malt/pyct/origin_info.py', 'malt/pyct/error_utils.py', 'malt/pyct/transformer.py',
           'malt/pyct/templates.py', 'malt/pyct/loader.py', 'malt/impl/api.py']

MODE = {'api': 'convert', 'recursive': True, 'post': 'errors'}

FAILS = [
    "raise UErr('boom %d' % @K)",
    "raise ValueError('bad value %d' % @K)",
    "raise KeyError(@K)",
    "{}['missing']",
    "[][@K]",
    "@K // 0",
    "None.nothing",
    "int('x%d' % @K)",
    "raise CustomInitError(@K, 2)",
    "raise UErr2()",
    "raise CustomValueError(@K, 9)",
    "raise CodeError(@K)",
    "assert @K < 0, 'assert %d' % @K",
]
CONDS = ['x == @K', 'x > @K', 'n > @K', 'b', 'len(xs) > @K', 'not b and x < @K']

FEATURES = gen.ALL_FEATURES - {'undef', 'try', 'raise', 'lambda', 'compr'}

EXTRA = [
    ('er:callee_called_with_keywords', '''def lookup(table, key, default=0):
  value = table[key]
  if value > default:
    return value
  return default

def scale(p, *, factor):
  r = p * factor
  if r > 4:
    raise UErr('scale')
  return r

def f(x, n, b, xs):
  table = {0: 1, 1: 5}
  a = 0
  for i in range(n):
    a = a + lookup(table, key=i, default=x)
    if b:
      a = a + scale(i, factor=x)
  a = a + lookup(table=table, key=x)
  return a
'''),
    ('er:decorators_spanning_lines', '''def deco(*a, **k):
  def wrap(fn):
    return fn
  return wrap

@deco(
    'leaf',
    flag=True,
)
def leaf(p, q):
  r = p - q
  if r == 0:
    raise UErr('leaf')
  return r

@deco('mid')
# a comment between the decorator and the def

def mid(p, q):
  s = 0
  for i in range(p):
    s = s + leaf(i, q)
  return s

@deco('one')
@deco(
    'two')
def top(p, q):
  if p > 2:
    return {1: 1}[q]
  return mid(p, q)

def f(x, n, b, xs):
  a = top(n, x)
  return a
'''),
    ('err:raised_in_nested_functions', '''def f(x, n, b, xs):
  table = {0: 1, 1: 2}
  def scale(p):
    factor = table[p]
    return factor * 2
  def outer_helper(p):
    def inner_helper(q):
      if q > x:
        raise ValueError('bad value')
      return q
    r = inner_helper(p)
    return r
  total = 0
  for i in range(n):
    if b:
      total = total + scale(i)
    total = total + outer_helper(i)
  return total
'''),
    ('er:callee_chain', '''def leaf(p, q):
  r = p - q
  if r == 0:
    raise UErr('leaf %d' % p)
  return r

def mid(p, q):
  s = 0
  for i in range(p):
    s = s + leaf(i, q)
  return s

@malt.experimental.do_not_convert
def plain(p, q):
  return mid(p, q) + 1

def f(x, n, b, xs):
  a = mid(n, x)
  if b:
    a = a + plain(n + 1, x + 1)
  def inner(z):
    if z == x:
      return {}[z]
    return z
  for e in xs:
    a = a + inner(e)
  return a
'''),
    ('er:in_loop_iteration', '''def f(x, n, b, xs):
  a = 0
  w = 0
  while w < n:
    w = w + 1
    if w == x:
      a = a + [1, 2][w + 5]
    a = a + 1
  for i in range(n):
    if i + 1 == x and b:
      raise ValueError('iteration %d' % i)
  return a
'''),
]


def inject(prog, rnd, idx):
  """Inserts `if COND: FAIL` before a random simple statement of the program."""
  lines = prog.src.rstrip('\n').split('\n')
  cands = []
  for i, l in enumerate(lines):
    st = l.strip()
    if not st or l.startswith('def ') or st.split(' ')[0].rstrip(':') in (
        'else', 'elif', 'except', 'finally', 'def', 'nonlocal', 'global', 'try', 'with'):
      continue
    if i > 0 and lines[i - 1].strip().startswith('def '):
      continue          # keep nonlocal/global declarations and chk() first
    if st.startswith(('chk(', 'nonlocal', 'global')):
      continue
    # not at class-body level: control flow directly in the body of a class statement
    # nested in a function is not convertible (cfg keeps the class statement as one
    # node; conversion fails loudly and falls back), so no `if` is planted there
    indent = len(l) - len(l.lstrip())
    owner = None
    for j in range(i - 1, -1, -1):
      if lines[j].strip() and len(lines[j]) - len(lines[j].lstrip()) < indent:
        owner = lines[j].strip()
        break
    if owner is not None and owner.startswith('class '):
      continue
    cands.append(i)
  i = rnd.choice(cands)
  ind = lines[i][:len(lines[i]) - len(lines[i].lstrip())]
  k = rnd.randint(0, 2)
  cond = rnd.choice(CONDS).replace('@K', str(k))
  # inside a nested def / helper the names x, n, b, xs may not exist: use a literal guard
  in_f = True
  for j in range(i, -1, -1):
    if lines[j].startswith('def '):
      in_f = lines[j].startswith('def f(')
      break
    if lines[j].lstrip().startswith('def '):
      in_f = False
      break
  if not in_f:
    cond = 'True'
  fail = rnd.choice(FAILS).replace('@K', str(k))
  new = lines[:i] + [ind + 'if %s:' % cond, ind + '  ' + fail] + lines[i:]
  return gen.Prog('err:%d:%s' % (idx, prog.name), '\n'.join(new) + '\n', set(prog.tags) | {'inject'},
                  prog.globs, prog.params)


def classify(p, m, r):
  from vf.checks import C01
  return set(C01.classify(p, m, r))


def run(tier):
  R = common.Run('C12', tier, 'translation_validation', ENCODED)
  rnd = random.Random(R.seed + 31)
  sk = [p for p in gen.skeletons(2) if 'leaf_raise' not in p.tags and not ({'tryexc', 'handler', 'tryexcfin', 'handlerfin', 'tryelse', 'trybodyelse'} & p.tags)]
  if tier == 'quick':
    base = rnd.sample(sk, 50) + gen.random_programs(50, R.seed + 13, FEATURES)
  else:
    base = sk + gen.random_programs(300, R.seed + 13, FEATURES)
  progs = [inject(p, rnd, i) for i, p in enumerate(base)]
  progs += [gen.Prog(n, s, {'extra'}) for n, s in EXTRA]
  bounds = {'n': 3, 'len': 2}
  pct, ppt = (20.0, 5.0) if tier == 'quick' else (90.0, 15.0)
  def mode_for(p):
    m = dict(MODE)
    if 'do_not_convert' in p.src:
      m['all_units_converted'] = False
    return [m]

  e1run.run_family(R, progs, None, bounds, pct, ppt, classify, mode_for=mode_for,
                   title='error reported by converted code differs from the original failure')
  from vf.harness import c12
  twin = pool.run_tasks([('vf.unit', 'work', {'module': 'vf.harness.c12', 'func': 'reach_twin',
                                              'per_condition_timeout': 30.0})], hard_timeout=120)[0]
  if twin.get('verdict') != 'refuted':
    R.fatal.append('reachability twin was not refuted: %r' % (twin,))
  unit.run_units(R, 'vf.harness.c12', c12.HARNESSES, 200.0, 20.0,
                 title='stack summary differs from the documented frame selection')
  cov = {
      'programs': len(progs),
      'disagreements_checked': R.counts['refuted'],
      'failure_kinds': FAILS,
      'bounds': {'n': '0..3', 'len(xs)': '<=2', 'x': 'unbounded int'},
      'type_rule': 'same type required for KNOWN_STRING_CONSTRUCTOR_ERRORS, KeyError and pure-Python Exception '
                   'subclasses without __init__/__new__; StagingError required for classes with their own '
                   'constructor; either accepted for other builtin classes (CPython 3.12 gives every builtin '
                   'exception type its own C-level __init__ slot)',
      'outside_bounds': 'the static reading "every source-map entry" is only validated through failing executions; '
                        'failures inside try bodies with handlers in the same function are not generated',
  }
  return R.finish(cov, assumptions=[
      'traceback.extract_tb of the unconverted function is the reference for file/function/line',
      'one statement per line in generated programs',
  ], min_conclusive=0.5)
