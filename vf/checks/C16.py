"""C16 — conversion-status context restored on every exit and isolated per thread.

(1) Inductive step (unit harnesses, CrossHair/z3): from an arbitrary valid
    thread-local stack, one real wrapper entered and left around a body stub that
    returns or raises; see vf/harness/c16.py.
(2) Generated code (E1): converted programs whose callees raise at symbolic
    points; control_status_ctx() identity before/after, probes inside.
(3) Threads (E3, z3 BMC over schedules): see vf/bmc_ctx.py.
"""
from vf import common, e1run, gen, pool, unit

ENCODED = ['malt/core/ag_ctx.py', 'malt/operators/function_wrappers.py', 'malt/impl/api.py']

M_TG = {'api': 'to_graph', 'recursive': True, 'post': 'ctx'}
M_CV = {'api': 'convert', 'recursive': True, 'post': 'ctx'}

PROGS = [
    ('cx:raise_at_depth', '''def leaf(p, q):
  probe('E-leaf')
  if p == q:
    raise UErr(p)
  return p + 1

def mid(p, q):
  probe('E-mid')
  s = 0
  for i in range(p):
    s = s + leaf(i, q)
  return s

def f(x, n, b, xs):
  probe('E-top')
  a = 0
  try:
    a = mid(n, x)
  except UErr:
    a = -1
    probe('E-handler')
  if b:
    a = a + mid(n + 1, x)
  return a
'''),
    ('cx:do_not_convert_region', '''@malt.experimental.do_not_convert
def plain(p, q):
  probe('D-plain')
  if p > q:
    raise UErr2(p)
  return inner(p)

def inner(p):
  probe('D-inner-called-from-disabled')
  return p * 2

def conv(p):
  probe('E-conv')
  return p + 1

def f(x, n, b, xs):
  a = conv(n)
  probe('E-before')
  try:
    a = a + plain(n, x)
  finally:
    probe('E-after')
  for e in xs:
    if e > x:
      a = a + plain(e, x + 1)
  return a
'''),
    ('cx:nested_def_run_in_disabled_region', '''@malt.experimental.do_not_convert
def run_plain(cb, p, tag):
  probe('D-run_plain')
  return cb(p, tag)

def f(x, n, b, xs):
  def inner(p, tag):
    probe(tag)
    if p > x:
      return p + 1
    return p
  k = lambda p, tag: (probe(tag), p)[1]
  a = inner(n, 'E-inner-direct')
  a = a + run_plain(inner, n, 'D-inner-in-disabled-region')
  a = a + run_plain(k, 1, 'D-lambda-in-disabled-region')
  probe('E-after')
  for e in xs:
    a = a + run_plain(inner, e, 'D-inner-in-loop')
  return a
'''),
    ('cx:lambda_and_nested_scope', '''def f(x, n, b, xs):
  k = lambda z: (probe('E-lambda'), z + 1)[1]
  def h(p):
    probe('E-nested')
    if p == x:
      raise UErr(p)
    return k(p)
  a = 0
  w = 0
  while w < n:
    w = w + 1
    try:
      a = a + h(w)
    except UErr:
      probe('E-caught')
      if b:
        raise
  return a
'''),
]


def run(tier):
  R = common.Run('C16', tier, 'model_checking', ENCODED)
  from vf.harness import c16
  pct = 60.0 if tier == 'quick' else 300.0
  twin = pool.run_tasks([('vf.unit', 'work', {'module': 'vf.harness.c16', 'func': 'reach_twin',
                                              'per_condition_timeout': 60.0})], hard_timeout=200)[0]
  if twin.get('verdict') != 'refuted':
    R.fatal.append('reachability twin was not refuted: %r' % (twin,))
  unit.run_units(R, 'vf.harness.c16', c16.HARNESSES, pct, 10.0,
                 title='conversion-status context not restored / wrong status inside wrapper')
  progs = [gen.Prog(n, s, {'ctx'}) for n, s in PROGS]
  e1run.run_family(R, progs, [M_TG, M_CV], {'n': 3, 'len': 2}, pct, 10.0, None,
                   title='conversion status differs after/inside converted code')
  from vf import bmc_ctx
  bm = bmc_ctx.run(R, tier)
  cov = {
      'states': max(1, bm['states']),
      'transitions': max(1, bm['transitions']),
      'traces_validated_against_impl': bm['traces_validated'],
      'states_note': 'states/transitions counted by an explicit concrete exploration of the SAME extracted transition '
                     'system (cross-check); the deciding step is the z3 BMC over all schedules',
      'bmc': bm['summary'],
      'unit_harnesses': c16.HARNESSES,
      'unit_bound': 'pre-stack depth 1..4, statuses arbitrary, body returns|raises, body nests a balanced wrapper or not',
      'programs': len(progs),
      'reachability_twin': twin.get('verdict'),
      'outside_bounds': 'asyncio/greenlets; more than 2 threads; stack deeper than 4 in the unit step '
                        '(the step is independent of depth by construction of list.append/pop)',
  }
  return R.finish(cov, assumptions=[
      'STUB: api.converted_call is replaced by a direct call of the body stub in the convert()/internal_convert() harnesses',
      'induction hypothesis: the callee leaves the stack as it found it (the body stub does; nested wrapper use is balanced)',
      'E3 primitives: list.append/pop/[-1], hasattr/setattr on threading.local are atomic steps',
  ] + bm['assumptions'])
