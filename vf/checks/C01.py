"""C01 — conversion preserves Python semantics under the default operators.

Engine E1: for every enumerated program P (skeletons + seeded random tail) and
option set, the function produced by the REAL pipeline (malt.to_graph / the
malt.convert decorator) is executed symbolically by CrossHair together with the
real operator fall-backs; postcondition obs(f, args) == obs(g, args) for all
x, b, xs (len<=L) and 0<=n<=B.
"""
import random

from vf import common, e1run, gen

ENCODED = [
    'malt/impl/api.py', 'malt/converters/control_flow.py', 'malt/converters/break_statements.py',
    'malt/converters/continue_statements.py', 'malt/converters/return_statements.py',
    'malt/converters/functions.py', 'malt/converters/call_trees.py',
    'malt/converters/logical_expressions.py', 'malt/converters/conditional_expressions.py',
    'malt/converters/variables.py', 'malt/converters/lists.py', 'malt/converters/slices.py',
    'malt/operators/control_flow.py', 'malt/operators/logical.py', 'malt/operators/variables.py',
    'malt/operators/function_wrappers.py', 'malt/operators/py_builtins.py',
    'malt/pyct/static_analysis/liveness.py', 'malt/pyct/static_analysis/reaching_definitions.py',
    'malt/pyct/static_analysis/activity.py', 'malt/pyct/cfg.py', 'malt/pyct/transpiler.py',
]

M_DEFAULT = {'api': 'to_graph', 'recursive': True}
M_LISTS = {'api': 'to_graph', 'recursive': True, 'features': ['LISTS']}
M_CONVERT = {'api': 'convert', 'recursive': True}
M_NONREC = {'api': 'to_graph', 'recursive': False}
M_FEATS = {'api': 'to_graph', 'recursive': True, 'features': ['BUILTIN_FUNCTIONS', 'EQUALITY_OPERATORS']}
M_ALL = {'api': 'to_graph', 'recursive': True,
         'features': ['ASSERT_STATEMENTS', 'BUILTIN_FUNCTIONS', 'EQUALITY_OPERATORS', 'LISTS']}

# Hand-written members of the C01 class that exercise constructs the grammar
# reaches only rarely (each is an ordinary obligation).
EXTRA = [
    ('x:except_as', '''def f(x, n, b, xs):
  a = 0
  try:
    if x > 1:
      raise UErr(t(1, x))
    a = a + t(2, 1)
  except UErr as e:
    a = a + t(3, len(e.args))
  return a
'''),
    ('x:nested_ifexp', '''def f(x, n, b, xs):
  a = t(1, x) if x > 2 else (t(2, n) if b else t(3, 7))
  return a
'''),
    ('x:while_return_in_try_finally', '''def f(x, n, b, xs):
  a = 0
  w = 0
  while w < n:
    w = w + 1
    try:
      if w == x:
        return t(1, a)
      a = a + w
    finally:
      a = a + t(2, 10)
  return a
'''),
    ('x:closure_counter', '''def f(x, n, b, xs):
  a = 0
  def inc(k):
    nonlocal a
    a = a + k
    return a
  for i in range(n):
    if inc(i) > x:
      break
  return (a, inc(0))
'''),
    ('x:global_and_list_arg', '''def f(x, n, b, xs):
  global G
  for i in range(n):
    G = G + i
    if b and i == x:
      xs.append(t(1, G))
      continue
    xs = xs + [i]
  return (G, xs)
'''),
    ('x:tuple_for_targets', '''def f(x, n, b, xs):
  a = 0
  for i, e in enumerate(xs):
    if e > x:
      a = a + t(1, i)
    elif e == x:
      break
  else_ = a
  for (p, q) in [(1, 2), (3, 4)]:
    a = a + p * 2 - q
  return (a, else_)
'''),
    ('x:and_or_short_circuit', '''def f(x, n, b, xs):
  a = t(1, x) > 0 and t(2, n) > 1 or not t(3, b)
  c = 0
  while c < n and (t(4, c) < x or b):
    c = c + 1
  return (a, c)
'''),
    ('x:method_and_attr_state', '''def f(x, n, b, xs):
  o = O()
  for i in range(n):
    if o.bump(i) > x:
      o.w = o.w + 1
      continue
    o.v = o.v - 1
  return (o.v, o.w)
'''),
    ('x:deep_break_continue', '''def f(x, n, b, xs):
  a = 0
  for i in range(n):
    for j in range(n):
      if j == x:
        continue
      if i + j > x + 2:
        break
      a = a + t(1, i * 3 + j)
    if b:
      if a > 4:
        break
    a = a + 100
  return a
'''),
    ('x:partial_keyword_override', '''def kw(p, q=1, r=2):
  return t(1, p) * 100 + q * 10 + r

def f(x, n, b, xs):
  g = functools.partial(kw, q=3, r=4)
  a = g(x, q=n)
  h = functools.partial(g, 7, r=5)
  c = h(q=x) if b else h()
  return (a, c, functools.partial(kw, x, r=0)(r=n))
'''),
    ('x:return_in_try_else_in_loop', '''def f(x, n, b, xs):
  a = 0
  for e in xs:
    try:
      if e > x:
        raise UErr(e)
      a = a + 1
    except UErr:
      a = a + 10
    else:
      if a > n:
        return (a, t(1, e))
      a = a + 100
  return (a, -1)
'''),
    ('x:one_shot_iterator_after_break', '''def f(x, n, b, xs):
  it = iter(xs + [7, 8])
  first = -1
  for e in it:
    if e > x:
      first = t(1, e)
      break
  rest = list(it)
  gen = (t(2, k) for k in range(n))
  for v in gen:
    if v == x or b:
      return (first, rest, v, list(gen))
  return (first, rest, -1, list(gen))
'''),
    ('x:global_write_only_in_loop', '''def f(x, n, b, xs):
  global G
  for i in range(n):
    G = i + x
  if b:
    G = 5
  return 0
'''),
    ('x:nonlocal_reader_called_after_loop', '''def f(x, n, b, xs):
  a = 0
  for e in xs:
    a = e + 3
  def h(p):
    nonlocal a
    return a + p
  a = h(x)
  return a
'''),
]
EXTRA_GLOBS = {'x:global_and_list_arg': {'G': 0}, 'x:global_write_only_in_loop': {'G': 0}}

# Witness programs of the listed known findings (known_findings.json): each is
# run with exactly the mode that exhibits the finding, so the KNOWN-FINDING line
# is re-established on every run instead of being assumed.
WITNESS = [
    ('w:chained_cmp', M_DEFAULT, '''def f(x, n, b, xs):
  a = 0
  if 0 <= t(1, x) < 3:
    a = 1
  return a
'''),
    ('w:for_target_zero_trip', M_DEFAULT, '''def f(x, n, b, xs):
  i = 7
  if b:
    i = -1
  for i in range(n):
    pass
  return i
'''),
    ('w:walrus_in_loop_test', M_DEFAULT, '''def f(x, n, b, xs):
  a = 0
  i = 0
  while (i := i + 1) <= n:
    a = a + i
  return (a, i)
'''),
    ('w:walrus_in_lazy_operand', M_DEFAULT, '''def f(x, n, b, xs):
  a = 0
  z = -1
  if b and (z := x + 1) > 1:
    a = a + z
  return (a, z)
'''),
    ('w:lists_closure_append', M_LISTS, '''def f(x, n, b, xs):
  l = [0]
  def h(p):
    l.append(p)
    return p
  a = h(x)
  return (a, l)
'''),
]


def _effectful_chain(src):
  import ast
  for node in ast.walk(ast.parse(src)):
    if isinstance(node, ast.Compare) and len(node.ops) >= 2:
      for mid in node.comparators[:-1]:
        if any(isinstance(k, ast.Call) for k in ast.walk(mid)):
          return True
  return False


def _branch_assign_to_later_for_target(src):
  """A name assigned inside an if/while/for body and used later as a for-loop target."""
  import ast
  for fn in ast.walk(ast.parse(src)):
    if not isinstance(fn, ast.FunctionDef):
      continue
    targets = {}
    for n in ast.walk(fn):
      if isinstance(n, ast.For):
        for t in ast.walk(n.target):
          if isinstance(t, ast.Name):
            targets.setdefault(t.id, []).append(n.lineno)
    for n in ast.walk(fn):
      if isinstance(n, (ast.If, ast.While, ast.For)):
        for st in ast.walk(n):
          if isinstance(st, ast.Assign):
            for t in st.targets:
              if isinstance(t, ast.Name) and any(l > n.lineno for l in targets.get(t.id, [])) \
                  and not (isinstance(n, ast.For) and any(isinstance(q, ast.Name) and q.id == t.id for q in ast.walk(n.target))):
                return True
  return False


def _append_on_enclosing_list(src):
  import ast
  for fn in ast.walk(ast.parse(src)):
    if isinstance(fn, ast.FunctionDef):
      for inner in ast.walk(fn):
        if inner is not fn and isinstance(inner, ast.FunctionDef):
          assigned = {n.id for n in ast.walk(inner) if isinstance(n, ast.Name) and isinstance(n.ctx, ast.Store)}
          params = {a.arg for a in inner.args.args}
          for c in ast.walk(inner):
            if (isinstance(c, ast.Call) and isinstance(c.func, ast.Attribute) and c.func.attr == 'append'
                and isinstance(c.func.value, ast.Name) and c.func.value.id not in assigned | params):
              return True
  return False


def _walrus_in_generated_function(src):
  """A walrus whose target must outlive an expression that the converter wraps into a
  function of its own: a while test, or an operand of and/or / a conditional expression."""
  import ast
  tree = ast.parse(src)
  for node in ast.walk(tree):
    holders = []
    if isinstance(node, ast.While):
      holders.append(node.test)
    elif isinstance(node, ast.BoolOp):
      holders += node.values[1:] if len(node.values) > 1 else []
      holders.append(node.values[0])
    elif isinstance(node, ast.IfExp):
      holders += [node.body, node.orelse]
    for h in holders:
      if any(isinstance(k, ast.NamedExpr) for k in ast.walk(h)):
        return True
  return False


def classify(p, m, r):
  """Structural patterns of a violation (fixed vocabulary, see known_findings.json)."""
  tags = set()
  if r.get('kind') == 'mismatch' and _walrus_in_generated_function(p.src):
    tags.add('walrus_target_bound_inside_generated_function')
  if r.get('kind') == 'mismatch' and _effectful_chain(p.src):
    tags.add('chained_comparison_effectful_middle_operand')
  if r.get('kind') == 'mismatch' and _branch_assign_to_later_for_target(p.src):
    tags.add('assignment_in_branch_to_later_for_target_lost_on_zero_trip')
  if (r.get('kind') == 'mismatch' and 'LISTS' in (m.get('features') or ())
      and _append_on_enclosing_list(p.src)):
    tags.add('lists_feature_append_rebinds_nonlocal_list')
  if r.get('kind') == 'conversion_error':
    tags.add('conversion_error')
    conv = r.get('conv') or {}
    if "'str' object has no attribute '_fields'" in conv.get('message', '') and ' as ' in p.src:
      tags.add('except_handler_with_name')
  return tags


def programs(tier, seed):
  sk = gen.skeletons(2)
  rnd = random.Random(seed)
  if tier == 'quick':
    d1 = [p for p in sk if p.name.count('>') == 0]
    d2 = [p for p in sk if p.name.count('>') == 1]
    progs = d1 + rnd.sample(d2, 70)
    progs += gen.random_programs(40, seed)
  else:
    sk3 = [p for p in gen.skeletons(3) if p.name.count('>') == 2]
    progs = sk + rnd.sample(sk3, 300)
    progs += gen.random_programs(300, seed) + gen.random_programs(80, seed + 1, max_depth=4, max_stmts=7)
  progs += [gen.Prog(n, s, {'extra'}, EXTRA_GLOBS.get(n)) for n, s in EXTRA]
  from vf import exotic
  progs += exotic.programs()       # tagged 'exotic': default + convert modes
  progs += [gen.Prog(n, s, {'witness'}) for n, _, s in WITNESS]
  import os
  if os.environ.get('VF_ONLY'):
    progs = [p for p in progs if p.name.startswith(os.environ['VF_ONLY'])]
  return progs


def run(tier):
  R = common.Run('C01', tier, 'translation_validation', ENCODED)
  progs = programs(tier, R.seed)
  bounds = {'n': 3, 'len': 2}
  rnd = random.Random(R.seed + 17)

  wmode = dict((n, m) for n, m, _ in WITNESS)

  def mode_for(p):
    if p.name in wmode:
      return [wmode[p.name]]
    ms = [M_DEFAULT]
    q = rnd.random()
    if 'extra' in p.tags or 'exotic' in p.tags or q < 0.15:
      ms.append(M_CONVERT)
    elif q < 0.25:
      ms.append(M_NONREC)
    elif q < 0.35:
      ms.append(M_FEATS)
    elif q < 0.45 and not ({'def', 'listops'} <= p.tags) and 'kinds2' not in p.tags:
      # (ASSERT_STATEMENTS / LISTS raise NotImplementedError by design for assert messages that
      # are not string literals and for chained assignment: programs with those kinds stay out)
      ms.append(M_ALL)
    return ms

  pct, ppt = (15.0, 4.0) if tier == 'quick' else (60.0, 10.0)
  results, stats = e1run.run_family(R, progs, None, bounds, pct, ppt, classify, mode_for=mode_for)
  cov = {
      'programs': len(progs),
      'disagreements_checked': R.counts['refuted'],
      'by_mode': stats['by_mode'],
      'bounds': {'n': '0..3', 'len(xs)': '<=2', 'x': 'unbounded int', 'b': 'bool',
                 'per_condition_timeout_s': pct},
      'program_sources': 'skeleton chains depth<=%d + seeded random tail + %d hand-written' % (
          2 if tier == 'quick' else 3, len(EXTRA)),
      'outside_bounds': 'n>3, len(xs)>2, programs not enumerated; for/while-else, generators, '
                        'jumps in finally (documented limits) are not generated',
  }
  return R.finish(cov, assumptions=[
      'CPython executing the original function is the reference semantics',
      'tracer t / O / CM / UErr of vf.rt are the environment; t is marked as an autograph artifact',
      'CrossHair 0.0.110 + z3 model Python ints/bools/lists faithfully; every counterexample is replayed natively',
      'programs are enumerated, not solved (DESIGN section 0)',
  ])
