"""C05 — the control-flow graph contains every control path that can execute."""
from vf import e2run

ENCODED = ['malt/pyct/cfg.py']


def classify(p, fail):
  tags = set()
  import ast
  if fail.get('kind') in ('missing_edge', 'not_an_exit') or fail.get('kind') == 'side':
    # jump (return/break/continue) lexically inside an except handler of a try that has a finally
    for t in ast.walk(ast.parse(p.src)):
      if isinstance(t, ast.Try) and t.finalbody:
        for h in t.handlers:
          for n in ast.walk(h):
            if isinstance(n, (ast.Return, ast.Break, ast.Continue)):
              tags.add('jump_in_except_handler_of_try_with_finally')
  return tags


def run(tier):
  return e2run.run_property('C05', tier, ENCODED, classify,
                            outside='more than one pending jump per finally is covered only as far as programs exercise it')
