"""Native replay of recorded counterexamples (no CrossHair, fresh process).

Exit status 1 = the violation reproduces on /repo's current tree, 0 = it does
not, 3 = the replay file cannot be interpreted.
"""
import importlib
import logging


def replay(obj):
  logging.disable(logging.WARNING)
  eng = obj.get('engine')
  if eng == 'e1':
    return _replay_e1(obj)
  if eng:
    mod = importlib.import_module('vf.%s' % eng)
    if eng == 'unit' and obj.get('setup') == 'prewarm':
      obj = dict(obj, setup=None)
    return mod.replay(obj)
  print('unknown replay engine %r' % (eng,))
  return 3


def _replay_e1(obj):
  from vf import e1
  print('property  :', obj.get('property'))
  print('title     :', obj.get('title'))
  if obj.get('kind') == 'conversion_error':
    import tempfile, shutil
    tmp = tempfile.mkdtemp(prefix='vf_replay_')
    try:
      try:
        e1.load_module(obj['module_source'], tmp, 'replay')
      except Exception as e:  # pylint:disable=broad-except
        print('program   :\n' + obj.get('program', ''))
        print('conversion raised %s: %s' % (type(e).__name__, str(e)[:500]))
        return 1
      print('conversion succeeded')
      return 0
    finally:
      shutil.rmtree(tmp, ignore_errors=True)
  args, kwargs = obj['cex']
  of, og, same = e1.explain(obj['module_source'], args, kwargs)
  print('program   :\n' + obj.get('program', ''))
  print('mode      :', obj.get('mode'))
  print('arguments :', args, kwargs or '')
  print('reference :', of)
  print('converted :', og)
  if obj.get('mode', {}).get('post') in ('opaque', 'contract', 'errors'):
    print('detail    :', e1.debug(obj['module_source'], obj['mode'], args))
  print('postcondition holds:', bool(same))
  return 0 if same else 1
