"""C11 unit harness: naming.Namer.new_symbol never returns a taken name."""
from malt.pyct import naming
from malt.pyct import qual_names

from crosshair.core import deep_realize
from crosshair.tracers import NoTracing
ROOTS = ['do_return', 'retval_', 'get_state', 'loop_body', 'itr', 'do_return_1', 'get_state_2', 'fscope']


def _check(root, ns_bits, res_bits, prev_root_count):
  UNIVERSE = universe(root)
  ns = dict((n, object()) for n, b in zip(UNIVERSE, ns_bits) if b)
  reserved = set()
  for i, (n, b) in enumerate(zip(UNIVERSE, res_bits)):
    if b:
      reserved.add(qual_names.QN(n) if i % 2 else n)
  nm = naming.Namer(ns)
  prev = [nm.new_symbol(root, reserved) for _ in range(prev_root_count)]
  r = nm.new_symbol(root, reserved)
  if r in ns or r in set(str(x) for x in reserved) or r in prev:
    return False
  if len(set(prev)) != len(prev):
    return False
  base = root
  pieces = root.split('_')
  if pieces[-1].isdigit():
    base = '_'.join(pieces[:-1])
  if r != base and not (r.startswith(base + '_') and r[len(base) + 1:].isdigit()):
    return False
  return True


def universe(root):
  base = root
  pieces = root.split('_')
  if pieces[-1].isdigit():
    base = '_'.join(pieces[:-1])
  return [base, base + '_1', base + '_2', base + '_3', 'other']


def make(root):
  def h(n0: bool, n1: bool, n2: bool, n3: bool, n4: bool, r0: bool, r1: bool, r2: bool, r3: bool,
        r4: bool, k0: bool, k1: bool) -> bool:
    """
    post: _
    """
    v = deep_realize((n0, n1, n2, n3, n4, r0, r1, r2, r3, r4, k0, k1))
    with NoTracing():
      return _check(root, v[0:5], v[5:10], int(v[10]) + 2 * int(v[11]))
  h.__name__ = h.__qualname__ = 'namer_%s' % root
  return h


HARNESSES = []
for _r in ROOTS:
  _h = make(_r)
  globals()[_h.__name__] = _h
  HARNESSES.append(_h.__name__)


def reach_twin(n0: bool, n1: bool, k0: bool) -> bool:
  """
  post: _
  """
  return not (n0 and n1 and k0)


def explain(func, args, kwargs):
  u = universe(func[6:])
  return 'root=%s namespace=%r reserved=%r previously_generated=%r' % (
      func[6:], [n for n, b in zip(u, args[:5]) if b],
      [n for n, b in zip(u, args[5:10]) if b], int(args[10]) + 2 * int(args[11]))
