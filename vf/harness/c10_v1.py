"""First definition of `target` (same name and line as c10_v2.target)."""


def target(a, b=3):
  if a > b:
    return ('v1-gt', a, b)
  return ('v1-le', a, b)
