"""C13 unit harnesses: api.converted_call transparency, policy and fall-back."""
import collections
import copy
import functools
import operator
import re

from crosshair.core import deep_realize
from crosshair.tracers import NoTracing

import malt
from malt.core import ag_ctx
from malt.core import converter
from malt.impl import api
from malt.impl import conversion
from malt.pyct import errors
from malt.utils import ag_logging
from vf import e1 as _e1
from vf import rt
from vf.harness import c13_targets as T

_e1._patch_late_conversion_detector()   # also installs the NoTracing hash of options

CALLEE_OPTS = converter.ConversionOptions(recursive=True, user_requested=False,
                                          internal_convert_user_code=True, optional_features=None)
USER_OPTS = converter.ConversionOptions(recursive=True, user_requested=True,
                                        internal_convert_user_code=True, optional_features=None)

CONVERTED_ARTIFACT = malt.to_graph(T.decorated.__wrapped__)
DNC = malt.experimental.do_not_convert(T.fn)

import os as _os
import sys as _sys
_sys.path.insert(0, _os.path.join(_os.path.dirname(_os.path.abspath(__file__)), 'lookalike'))
import copy_utils_vf, maltese_vf, numpy_like_vf, reporting_vf  # pylint:disable=wrong-import-position

KINDS = {
    'super_chain_method': T.CHAIN.weight, 'super_chain_fn': T.chain_total,
    # top-level user modules whose names only BEGIN with an allow-listed module name
    'look_re': reporting_vf.classify, 'look_copy': copy_utils_vf.classify,
    'look_malt': maltese_vf.classify, 'look_numpy': numpy_like_vf.classify,
    'fn': T.fn, 'lam': T.lam, 'bound': T.OBJ.meth, 'unbound': T.K.meth, 'cmeth': T.K.cmeth,
    'cmeth_inst': T.OBJ.cmeth, 'smeth': T.K.smeth, 'callable_obj': T.OBJ, 'cls': T.K,
    'part1': T.part1, 'part2': T.part2, 'part_kw': T.part_kw, 'gen': T.gen_fn,
    'decorated': T.decorated, 'namedtuple': T.NT, 'lru': T.cached, 'execd': T.execd,
    'raises': T.raises, 'artifact': CONVERTED_ARTIFACT, 'dnc': DNC,
    'b_len': len, 'b_abs': abs, 'b_max': max, 'b_divmod': divmod, 'c_add': operator.add,
    'lib_escape': re.escape, 'lib_copy': copy.copy, 'lib_odict': collections.OrderedDict,
    'malt_fn': malt.operators.logical.not_,
    'falsy_bound': T.EMPTY.total, 'falsy_callable': T.EMPTY, 'falsy_cmeth': T.EMPTY.make,
    'falsy_partial': T.functools.partial(T.EMPTY.total, 3),
}

# call shapes: (positional template, keyword template); 'x','y','z' are replaced by
# the symbolic ints, OBJ by T.OBJ, L by a small list
SHAPES = {
    'super_chain_method': [((), None)],
    'super_chain_fn': [(('CHAIN', 'x'), None), (('CHAIN',), {'k': 'y'})],
    'look_re': [(('x',), None), (('x',), {'b': 'y'})],
    'look_copy': [(('x',), None)],
    'look_malt': [(('x',), None)],
    'look_numpy': [(('x',), None)],
    'fn': [(('x',), None), (('x', 'y'), {}), (('x', 'y', 'z'), {'k': 'z'}), ((), {'a': 'x', 'b': 'y'}),
           (('x',), {'k': 'y', 'extra': 'z'}), ((), None), (('x',), {'a': 'y'})],
    'lam': [(('x',), None), (('x', 'y'), None), ((), {'a': 'x'}), (('x', 'y', 'z'), None)],
    'bound': [(('x',), None), (('x',), {'b': 'y'}), ((), {})],
    'unbound': [(('OBJ', 'x'), None), (('OBJ', 'x', 'y'), {})],
    'cmeth': [(('x',), None), (('x', 'y'), None)],
    'cmeth_inst': [(('x',), {'b': 'y'})],
    'smeth': [(('x',), None), (('x',), {'b': 'y'})],
    'callable_obj': [(('x',), None), (('x', 'y'), {}), ((), {'a': 'x', 'b': 'y'})],
    'cls': [((), None), (('x',), None), ((), {'base': 'x'})],
    'part1': [((), None), (('x',), None), (('x', 'y'), {'k': 'z'}), ((), {'k': 'x', 'w': 'y'})],
    'part2': [((), None), (('x',), {'z': 'y'}), (('x',), {'k': 'y'})],
    'part_kw': [(('x',), None), (('x', 'y'), {'q': 'z'}), (('x',), {'k': 'y'})],
    'gen': [(('x',), None), (('x', 'y'), None)],
    'decorated': [(('x',), None), (('x',), {'b': 'y'})],
    'namedtuple': [(('x', 'y'), None), ((), {'a': 'x', 'b': 'y'}), (('x',), None)],
    'lru': [(('x',), None), (('x', 'y'), None)],
    'execd': [(('x',), None), (('x',), {'b': 'y'})],
    'raises': [(('x',), None), (('x', 'y'), {})],
    'artifact': [(('x',), None), (('x',), {'b': 'y'})],
    'dnc': [(('x',), None), (('x', 'y'), {'k': 'z'})],
    'b_len': [(('L',), None), (('x',), None)],
    'b_abs': [(('x',), None), ((), None)],
    'b_max': [(('x', 'y'), None), (('L',), {'default': 'x'}), (('x', 'y', 'z'), {})],
    'b_divmod': [(('x', 'y'), None)],
    'c_add': [(('x', 'y'), None)],
    'lib_copy': [(('L',), None)],
    'lib_odict': [((), None), ((), {'a': 'x'})],
    'malt_fn': [(('x',), None)],
    'falsy_bound': [(('x',), None), (('x', 'y'), {}), ((), {'a': 'x', 'b': 'y'})],
    'falsy_callable': [(('x',), None)],
    'falsy_cmeth': [(('x',), None)],
    'falsy_partial': [((), None), (('x',), None), ((), {'b': 'x'})],
}


def _subst(v, x, y, z):
  return {'x': x, 'y': y, 'z': z, 'OBJ': T.OBJ, 'CHAIN': T.CHAIN}.get(v, v) if v != 'L' else [x, y]


def _norm(r):
  if hasattr(r, '__next__') and hasattr(r, 'send'):
    return ('gen', list(r))
  return r


def _transparent(kind, shape_idx, opts, x, y, z):
  f = KINDS[kind]
  pos, kw = SHAPES[kind][shape_idx]
  args = tuple(_subst(v, x, y, z) for v in pos)
  kwargs = None if kw is None else dict((k, _subst(v, x, y, z)) for k, v in kw.items())
  if kind == 'lru':
    f.cache_clear()
  direct = rt.obs(lambda *a: _norm(f(*a, **(kwargs or {}))), args)
  if kind == 'lru':
    f.cache_clear()
  wrapped = rt.obs(lambda *a: _norm(api.converted_call(f, a, kwargs, options=opts)), args)
  return rt.same_obs(direct, wrapped)


def make_transparent(kind, shape_idx, user):
  opts = USER_OPTS if user else CALLEE_OPTS

  def h(x: int, y: int, z: int) -> bool:
    """
    post: _
    """
    return _transparent(kind, shape_idx, opts, x, y, z)

  h.__name__ = h.__qualname__ = 'transparent_%s_%d_%s' % (kind, shape_idx, 'user' if user else 'callee')
  return h


TRANSPARENT = []
for _k in sorted(SHAPES):
  for _i in range(len(SHAPES[_k])):
    for _u in (False, True):
      if _u and _i > 0:
        continue   # user_requested options: first shape of every kind only
      _h = make_transparent(_k, _i, _u)
      globals()[_h.__name__] = _h
      TRANSPARENT.append(_h.__name__)


def prewarm(name):
  """Natively run the harness once so every conversion/cache fill happens before analysis."""
  fn = globals()[name]
  for v in ((0, 0, 0), (3, 1, 2), (-1, 5, 0)):
    fn(*v)


# -- policy -------------------------------------------------------------------
STATUSES = [ag_ctx.Status.UNSPECIFIED, ag_ctx.Status.ENABLED, ag_ctx.Status.DISABLED]

CONVERTIBLE = {'super_chain_method', 'super_chain_fn', 'look_re', 'look_copy', 'look_malt', 'look_numpy', 'fn', 'lam', 'bound', 'unbound', 'cmeth', 'cmeth_inst', 'smeth', 'callable_obj',
               'decorated', 'raises', 'falsy_bound', 'falsy_callable', 'falsy_cmeth'}
NEVER = {'cls', 'namedtuple', 'lru', 'execd', 'artifact', 'dnc', 'b_len', 'b_abs', 'b_max',
         'b_divmod', 'c_add', 'lib_escape', 'lib_copy', 'lib_odict'}
ALLOWLISTED_UNLESS_USER = {'malt_fn', 'gen'}
PARTIAL_OF = {'part1': 'fn', 'part2': 'fn', 'part_kw': 'fn', 'falsy_partial': 'falsy_bound'}


def expected_conversion(kind, rec, ur, icuc, st):
  """Decision table transcribed from g3doc/reference/functions.md and the property
  (first matching row wins); None = outside the claim."""
  if STATUSES[st] == ag_ctx.Status.DISABLED:
    return False
  kind = PARTIAL_OF.get(kind, kind)
  if kind in NEVER:
    return False
  if kind in ALLOWLISTED_UNLESS_USER:
    if not ur:
      return False
    return None        # user-requested conversion of an allow-listed target: unspecified
  if not icuc:
    return False
  if kind in CONVERTIBLE:
    return True
  raise KeyError(kind)


_COUNTS = {'convert': 0, 'warn': 0, 'stage': 0}
_orig_convert_actual = api._convert_actual


def _counting_convert_actual(entity, program_ctx):
  _COUNTS['convert'] += 1
  return _orig_convert_actual(entity, program_ctx)


def _policy(kind, rec, ur, icuc, st):
  want = expected_conversion(kind, rec, ur, icuc, st)
  f = KINDS[kind]
  pos, kw = SHAPES[kind][0]
  args = tuple(_subst(v, 3, 1, 2) for v in pos)
  kwargs = None if kw is None else dict((k, _subst(v, 3, 1, 2)) for k, v in kw.items())
  opts = converter.ConversionOptions(recursive=rec, user_requested=ur,
                                     internal_convert_user_code=icuc, optional_features=None)
  conversion._ALLOWLIST_CACHE = type(conversion._ALLOWLIST_CACHE)()
  if kind == 'lru':
    f.cache_clear()
  direct = rt.obs(lambda *a: _norm(f(*a, **(kwargs or {}))), args)
  if kind == 'lru':
    f.cache_clear()
  _COUNTS['convert'] = 0
  api._convert_actual = _counting_convert_actual
  try:
    with ag_ctx.ControlStatusCtx(STATUSES[st]):
      wrapped = rt.obs(lambda *a: _norm(api.converted_call(f, a, kwargs, options=opts)), args)
  finally:
    api._convert_actual = _orig_convert_actual
  if not rt.same_obs(direct, wrapped):
    return False
  if want is None:
    return True
  return (_COUNTS['convert'] > 0) == want


def make_policy(kind):
  def h(rec: bool, ur: bool, icuc: bool, st: int) -> bool:
    """
    pre: 0 <= st <= 2
    post: _
    """
    v = deep_realize((rec, ur, icuc, st))
    with NoTracing():
      return _policy(kind, v[0], v[1], v[2], v[3])

  h.__name__ = h.__qualname__ = 'policy_%s' % kind
  return h


POLICY = []
for _k in sorted(KINDS):
  if _k == 'lib_escape':
    continue
  _h = make_policy(_k)
  globals()[_h.__name__] = _h
  POLICY.append(_h.__name__)


def _policy2(kind, rec, ur, icuc, st1, st2):
  """Two calls of the same target under the same options, in contexts st1 then st2, with NO
  cache reset in between: a decision that depends on the context (DISABLED) must not be
  remembered; only the documented permanent reasons may be."""
  want = expected_conversion(kind, rec, ur, icuc, st2)
  f = KINDS[kind]
  pos, kw = SHAPES[kind][0]
  args = tuple(_subst(v, 3, 1, 2) for v in pos)
  kwargs = None if kw is None else dict((k, _subst(v, 3, 1, 2)) for k, v in kw.items())
  opts = converter.ConversionOptions(recursive=rec, user_requested=ur,
                                     internal_convert_user_code=icuc, optional_features=None)
  conversion._ALLOWLIST_CACHE = type(conversion._ALLOWLIST_CACHE)()
  direct = rt.obs(lambda *a: _norm(f(*a, **(kwargs or {}))), args)
  with ag_ctx.ControlStatusCtx(STATUSES[st1]):
    first = rt.obs(lambda *a: _norm(api.converted_call(f, a, kwargs, options=opts)), args)
  _COUNTS['convert'] = 0
  api._convert_actual = _counting_convert_actual
  try:
    with ag_ctx.ControlStatusCtx(STATUSES[st2]):
      second = rt.obs(lambda *a: _norm(api.converted_call(f, a, kwargs, options=opts)), args)
  finally:
    api._convert_actual = _orig_convert_actual
  if not (rt.same_obs(direct, first) and rt.same_obs(direct, second)):
    return False
  if want is None:
    return True
  return (_COUNTS['convert'] > 0) == want


def make_policy2(kind):
  def h(rec: bool, ur: bool, icuc: bool, st1: int, st2: int) -> bool:
    """
    pre: 0 <= st1 <= 2 and 0 <= st2 <= 2
    post: _
    """
    v = deep_realize((rec, ur, icuc, st1, st2))
    with NoTracing():
      return _policy2(kind, v[0], v[1], v[2], v[3], v[4])

  h.__name__ = h.__qualname__ = 'policy2_%s' % kind
  return h


POLICY2 = []
for _k in ('fn', 'bound', 'callable_obj', 'lam', 'part1', 'decorated'):
  _h = make_policy2(_k)
  globals()[_h.__name__] = _h
  POLICY2.append(_h.__name__)


# -- fall-back ------------------------------------------------------------------
def _stages():
  from malt.converters import (break_statements, call_trees, conditional_expressions,
                               continue_statements, control_flow, directives, functions,
                               logical_expressions, return_statements, variables)
  from malt.core import unsupported_features_checker
  from malt.pyct import cfg, loader, parser, qual_names, origin_info
  from malt.pyct.static_analysis import activity, liveness, reaching_definitions, reaching_fndefs
  return [
      (parser, 'parse_entity'), (origin_info, 'resolve_entity'),
      (unsupported_features_checker, 'verify'), (cfg, 'build'), (qual_names, 'resolve'),
      (activity, 'resolve'), (reaching_definitions, 'resolve'), (reaching_fndefs, 'resolve'),
      (liveness, 'resolve'), (functions, 'transform'), (directives, 'transform'),
      (break_statements, 'transform'), (continue_statements, 'transform'),
      (return_statements, 'transform'), (call_trees, 'transform'), (control_flow, 'transform'),
      (conditional_expressions, 'transform'), (logical_expressions, 'transform'),
      (variables, 'transform'), (loader, 'load_ast'),
  ]


STAGES = _stages()
FAULTS = [ValueError, KeyError, RuntimeError, AssertionError, TypeError,
          errors.UnsupportedLanguageElementError, errors.InaccessibleSourceCodeError]
N_STAGES = len(STAGES)
N_FAULTS = len(FAULTS)


# targets of the fall-back harnesses: (callable, positional args after x, keywords)
FALLBACK_TARGETS = [
    ('fn', lambda: T.fn, (2,), {'k': 1}),
    ('callable_obj', lambda: T.OBJ, (2,), None),
    ('bound', lambda: T.OBJ.meth, (), {'b': 2}),
    ('cmeth', lambda: T.K.cmeth, (2,), None),
    ('lam', lambda: T.lam, (), None),
]


def _fallback(stage, fault, x, target=0):
  mod, attr = STAGES[stage]
  exc = FAULTS[fault]
  orig = getattr(mod, attr)
  calls = [0]

  def failing(*a, **k):
    calls[0] += 1
    raise exc('injected fault in %s.%s' % (mod.__name__, attr))

  warns = [0]
  orig_warn = ag_logging.warning

  def warning(*a, **k):
    warns[0] += 1

  conversion._ALLOWLIST_CACHE = type(conversion._ALLOWLIST_CACHE)()
  saved_tr = api._TRANSPILER
  api._TRANSPILER = api.PyToPy()       # fresh conversion cache
  setattr(mod, attr, failing)
  ag_logging.warning = warning
  api.logging.warning = warning
  try:
    _, get, more, kw = FALLBACK_TARGETS[target]
    tgt = get()
    args = (x,) + more
    direct = rt.obs(tgt, args, None, kw)
    first = rt.obs(lambda: api.converted_call(get(), args, kw, options=CALLEE_OPTS), ())
    entered = calls[0]
    w1 = warns[0]
    # "the failure is remembered": for the callable that was passed, whatever its kind
    cached = conversion.is_in_allowlist_cache(get(), CALLEE_OPTS)
    second = rt.obs(lambda: api.converted_call(get(), args, kw, options=CALLEE_OPTS), ())
    ok = (rt.same_obs(direct, first) and rt.same_obs(direct, second) and entered == 1
          and w1 == 1 and cached and calls[0] == 1 and warns[0] == 1)
  finally:
    setattr(mod, attr, orig)
    ag_logging.warning = orig_warn
    api.logging.warning = orig_warn
    api._TRANSPILER = saved_tr
  return ok


def make_fallback(stage):
  def h(fault: int, x: int, target: int) -> bool:
    """
    pre: 0 <= fault < 7 and 2 <= x <= 3 and 0 <= target < 5
    post: _
    """
    v = deep_realize((fault, x, target))
    with NoTracing():
      return _fallback(stage, v[0], v[1], v[2])

  h.__name__ = h.__qualname__ = 'fallback_%02d_%s_%s' % (
      stage, STAGES[stage][0].__name__.split('.')[-1], STAGES[stage][1])
  return h


FALLBACK = []
for _s in range(N_STAGES):
  _h = make_fallback(_s)
  globals()[_h.__name__] = _h
  FALLBACK.append(_h.__name__)

assert N_STAGES == 20 and N_FAULTS == 7


def reach_twin(rec: bool, ur: bool, icuc: bool, st: int) -> bool:
  """
  pre: 0 <= st <= 2
  post: _
  """
  return not (rec and ur and icuc and st == 2)


def explain(func, args, kwargs):
  if func.startswith('policy2_'):
    kind = func[len('policy2_'):]
    return 'kind=%s options(rec,ur,icuc)=%r first call in %s, second call in %s: expected_converted(second)=%r' % (
        kind, tuple(args[:3]), STATUSES[args[3]].name, STATUSES[args[4]].name,
        expected_conversion(kind, args[0], args[1], args[2], args[4]))
  if func.startswith('policy_'):
    kind = func[len('policy_'):]
    return 'kind=%s options(rec,ur,icuc)=%r status=%s expected_converted=%r' % (
        kind, tuple(args[:3]), STATUSES[args[3]].name, expected_conversion(kind, *args))
  if func.startswith('fallback_'):
    mod, attr = STAGES[int(func.split('_')[1])]
    return 'fault %s injected in %s.%s, x=%r, target kind=%s' % (
        FAULTS[args[0]].__name__, mod.__name__, attr, args[1], FALLBACK_TARGETS[args[2]][0] if len(args) > 2 else 'fn')
  return 'call shape %s values %r' % (func, args)
