"""User module whose NAME merely begins with the name of an allow-listed module
(re / copy / malt / numpy): it is ordinary user code and is converted."""
from vf.rt import LOG


def classify(a, b=2):
  LOG.append(('classify', a, b))
  if a > b:
    return ('pos', a - b)
  return ('non-pos', b)
