"""Functions with varied signatures / closure shapes for the C09 harnesses."""
import functools

GV = 5
DECO_COUNT = [0]


def counting_deco(f):
  DECO_COUNT[0] += 1

  @functools.wraps(f)
  def w(*a, **k):
    return f(*a, **k)
  w.__wrapped_fn__ = f
  return w


def plain(a, b, c=3):
  if a > b:
    return ('gt', a, b, c, GV)
  return ('le', a, b, c, GV)


def posonly(a, b=1, /, c=2, *args, d, e=4, **kw):
  r = 0
  for v in args:
    r = r + v
  return (a, b, c, r, d, e, sorted(kw.items()), GV)


def kwonly(*, k, m=7):
  if k > m:
    return (k, m)
  return (m, k)


def kwonly_required(x, *, factor, offset):
  if x > offset:
    return x * factor + offset
  return offset - factor


def mutable_default(a, acc=[]):  # pylint:disable=dangerous-default-value
  acc.append(a)
  if len(acc) > 2:
    return ('many', list(acc))
  return ('few', list(acc))


class Holder(object):

  def __init__(self, base):
    self.base = base

  def meth(self, a, b=2, *, k=3):
    if a > self.base:
      return (self.base, a, b, k)
    return (self.base, -a, b, k)


class EmptyHolder(Holder):
  """A falsy instance (empty-container protocol); bound methods still take it first."""

  def __len__(self):
    return 0

  @classmethod
  def make(cls, a, b=1):
    if a > b:
      return (cls.__name__, a)
    return (cls.__name__, b)


def make_closures(c1, c2):
  c3 = [c1]
  unused = c2 + 100

  def clo(a, b=c1, *, k=c2):
    if a > c1:
      return (a, b, k, c1, c2, c3[0], GV)
    return (-a, b, k, c1, c2, c3[0], GV)

  def setter(v):
    nonlocal c1
    c1 = v
    return c1

  def only_c2(a):
    k = 0
    while a > c2 + 2 and k < 3:      # (bounded: an unbounded symbolic trip count cannot be exhausted)
      a = a - 1
      k = k + 1
    return (a, c2)

  lam = lambda a, b=c2: (a, b, c1) if a > b else (b, a, c1)
  return clo, setter, only_c2, lam


def make_loop_functions():
  fs = []
  for i in range(3):
    def shared_code(a, d=i * 10):
      if a > i:
        return (a, d, i)
      return (i, d, a)
    fs.append(shared_code)
  return fs


def make_unassigned_cell():
  def inner(a):
    if a > 0:
      return late + a
    return a
  fn = inner
  late = 50
  return fn


def make_converted_before_assignment():
  """The function is converted WHILE two of its closure cells are still empty (a helper
  defined further down and a variable assigned later): the converted function must share
  those very cells, so that the later bindings are seen on both sides."""
  import malt

  def inner(a):
    if a > 0:
      return helper(a) + late
    return late

  conv = malt.to_graph(inner)

  def helper(v):
    return v * 2

  late = 50

  def setter(v):
    nonlocal late
    late = v
    return late

  return inner, conv, setter


def make_directive_only_free_var():
  import malt as m2   # referenced only by a directive call, which conversion removes
  k = 3

  def loop(a):
    s = 0
    for i in range(k):
      m2.experimental.set_loop_options(maximum_iterations=5)
      s = s + a
    return s
  return loop


def make_directive_only_free_var_sorted_first():
  # the free variable that conversion removes (`aa`) sorts BEFORE the ones that stay
  import malt as aa
  limit = 4
  step = 2

  def loop(a):
    s = 0
    for i in range(limit):
      aa.experimental.set_loop_options(maximum_iterations=9)
      if i > a:
        s = s + step
    return (s, limit, step)

  def set_limit(v):
    nonlocal limit
    limit = v

  return loop, set_limit


@counting_deco
def decorated(a, b=2):
  if a > b:
    return (a, b)
  return (b, a)


def set_global(v):
  global GV
  GV = v
