"""C10 unit harnesses: request histories against the real conversion cache.

History = H requests (function index, options index) over a pool of functions
(two sharing one code object with different closure/defaults, two distinct
definitions with the same name, one re-created after garbage collection),
against ONE transpiler instance (real malt.impl.api.PyToPy: real cache, real
locking, real transform_ast wrapped by a counter). Finite space: the indices
are symbolic, realised, and the body runs natively (solver-exhausted).
"""
import gc
import inspect
import re

from crosshair.core import deep_realize
from crosshair.tracers import NoTracing

from malt.core import converter
from malt.impl import api
from vf.harness import c10_v1, c10_v2

F = converter.Feature


def make(k, d):
  def shared(a, b=d):
    if a > k:
      return ('gt', a, b, k)
    return ('le', a, b, k)
  return shared


class _Stepper(object):
  """Requests for `inst.step` hand a FRESH, short-lived bound-method object to the transpiler
  every time (two instances share the code object)."""

  def __init__(self, k):
    self.k = k

  def step(self, a, b=40):
    if a > self.k:
      return ('gt', a, b, self.k)
    return ('le', a, b, self.k)


def pool():
  """Fresh function objects for every history (index 4 is re-created, its
  predecessor having been garbage collected); indices 5 and 6 are instances whose bound
  method `step` is requested."""
  tmp = make(2, 30)
  del tmp
  # (refcounting frees the function object immediately; no gc.collect(): it is very slow inside a CrossHair process)
  return [make(1, 10), make(5, 20), c10_v1.target, c10_v2.target, make(2, 30), _Stepper(3), _Stepper(6)]


def _entity(obj):
  """(what is handed to the transpiler, the underlying function, extra leading arguments)."""
  if isinstance(obj, _Stepper):
    return obj.step, _Stepper.step, (obj,)
  return obj, obj, ()


OPTS = [
    converter.ConversionOptions(recursive=True, user_requested=True, optional_features=None),
    converter.ConversionOptions(recursive=False, user_requested=True, optional_features=None),
    converter.ConversionOptions(recursive=True, user_requested=False, optional_features=F.BUILTIN_FUNCTIONS),
    converter.ConversionOptions(recursive=False, user_requested=False, internal_convert_user_code=False,
                                optional_features=None),
]
# OPTS[3] and OPTS[1'] below differ from each other only in one field each; index 1 is
# (recursive=False, user_requested=True): the pair (1, 3) differs in user_requested and
# internal_convert_user_code; the explicit pair differing ONLY in internal_convert_user_code:
OPTS[2] = converter.ConversionOptions(recursive=False, user_requested=False, internal_convert_user_code=True,
                                      optional_features=None)
NF = 7
NO = len(OPTS)
SAMPLES = (-1, 2, 4, 7)


class Counting(api.PyToPy):
  """The real PyToPy (real cache, locking, parsing, factory creation, instantiate)
  with a counting STUB for transform_ast: the body is left as is and a marker
  constant embeds (name, options) so that aliasing between option sets or between
  definitions is visible in the generated source. (The option dependence of the
  full pass pipeline is C01/C20's subject; the stub is listed in evidence.)"""

  def __init__(self):
    super(Counting, self).__init__()
    self.counts = {}

  def transform_ast(self, node, ctx):
    import ast
    o = ctx.user.options
    # the marker is built from the individual fields (not from as_tuple()/hash/eq, which are
    # part of what is under test)
    fields = (o.recursive, o.user_requested, o.internal_convert_user_code,
              tuple(sorted(str(f) for f in o.optional_features)))
    key = (ctx.info.name, fields)
    self.counts[key] = self.counts.get(key, 0) + 1
    marker = ast.Expr(ast.Constant('vf-marker %s %r' % (ctx.info.name, fields)))
    node.body.insert(0, marker)
    node.decorator_list = []
    return node


def _norm_source(g):
  src = inspect.getsource(g)
  return re.sub(r'\s+', ' ', src).strip()


_REF = {}


def reference(fi, oi):
  """Cache-less reference: a brand-new transpiler converts exactly this function."""
  if (fi, oi) not in _REF:
    f, _, _ = _entity(pool()[fi])
    g, _, _ = Counting().transform(f, converter.ProgramContext(options=OPTS[oi]))
    _REF[(fi, oi)] = _norm_source(g)
  return _REF[(fi, oi)]


def _history(reqs):
  fs = pool()
  tr = Counting()
  for fi, oi in reqs:
    ent, f, lead = _entity(fs[fi])
    g, module, source_map = tr.transform(ent, converter.ProgramContext(options=OPTS[oi]))
    del ent                    # (a bound method requested as `inst.step` does not outlive the request)
    for x in SAMPLES:
      if g(*(lead + (x,))) != f(*(lead + (x,))):
        return False
    if g.__defaults__ is not f.__defaults__ and g.__defaults__ != f.__defaults__:
      return False
    if g.__globals__ is not f.__globals__:
      return False
    fc = dict(zip(f.__code__.co_freevars, f.__closure__ or ()))
    gc_ = dict(zip(g.__code__.co_freevars, g.__closure__ or ()))
    for v, cell in gc_.items():
      if v in fc and fc[v] is not cell:
        return False
    if _norm_source(g) != reference(fi, oi):
      return False          # stale code or aliased options
  # at most one source transformation per (code, options)
  per_code = {}
  for fi, oi in reqs:
    per_code.setdefault((_entity(fs[fi])[1].__code__, oi), 0)
  total = sum(tr.counts.values())
  if total > len(per_code):
    return False
  for (name, ot), c in tr.counts.items():
    pass
  return total == len(per_code)


def _decode(bits):
  """5 booleans -> (function index, options index) or None for the unused codes."""
  f = int(bits[0]) + 2 * int(bits[1]) + 4 * int(bits[2])
  o = int(bits[3]) + 2 * int(bits[4])
  if f >= NF:
    return None
  return (f, o)


def _run_bits(prefix, bits, suffix_first=False):
  reqs = list(prefix)
  for k in range(0, len(bits), 5):
    r = _decode(bits[k:k + 5])
    if r is None:
      return True          # unused code: not a request
    reqs.append(r)
  if suffix_first:
    reqs.append(reqs[0])
  return _history(reqs)


# Request indices are encoded in booleans: CrossHair realises a boolean with
# exactly one fork, whereas a ranged int costs several redundant iterations.
def make_history3(f0, o0):
  def h(a0: bool, a1: bool, a2: bool, a3: bool, a4: bool,
        b0: bool, b1: bool, b2: bool, b3: bool, b4: bool) -> bool:
    """
    post: _
    """
    v = deep_realize((a0, a1, a2, a3, a4, b0, b1, b2, b3, b4))
    with NoTracing():
      return _run_bits([(f0, o0)], v)
  h.__name__ = h.__qualname__ = 'history3_%d_%d' % (f0, o0)
  return h


HISTORY3 = []
for _f in range(NF):
  for _o in range(NO):
    _h = make_history3(_f, _o)
    globals()[_h.__name__] = _h
    HISTORY3.append(_h.__name__)


# Histories of four requests: the three free requests range over a sub-pool of four callables
# (a closure, a module function, the re-created closure, a bound method) x four option sets:
# 4 bits per request, 16^3 = 4096 continuations per first request, all of them valid.
SUBPOOL = (0, 2, 4, 5)


def make_history4(f0, o0):
  def h(a0: bool, a1: bool, a2: bool, a3: bool, b0: bool, b1: bool, b2: bool, b3: bool,
        c0: bool, c1: bool, c2: bool, c3: bool) -> bool:
    """
    post: _
    """
    v = deep_realize((a0, a1, a2, a3, b0, b1, b2, b3, c0, c1, c2, c3))
    with NoTracing():
      reqs = [(f0, o0)]
      for k in (0, 4, 8):
        reqs.append((SUBPOOL[int(v[k]) + 2 * int(v[k + 1])], int(v[k + 2]) + 2 * int(v[k + 3])))
      return _history(reqs)
  h.__name__ = h.__qualname__ = 'history4_%d_%d' % (f0, o0)
  return h


HISTORY4 = []
for _f in SUBPOOL:
  for _o in (0, 2):
    _h = make_history4(_f, _o)
    globals()[_h.__name__] = _h
    HISTORY4.append(_h.__name__)


def history_aba(a0: bool, a1: bool, a2: bool, a3: bool, a4: bool,
                b0: bool, b1: bool, b2: bool, b3: bool, b4: bool) -> bool:
  """
  post: _
  """
  v = deep_realize((a0, a1, a2, a3, a4, b0, b1, b2, b3, b4))
  with NoTracing():
    return _run_bits([], v, suffix_first=True)


HISTORY_ABA = ['history_aba']


# -- converted_call histories (api._TRANSPILER + conversion._ALLOWLIST_CACHE) ----------
import sys

from malt.core import ag_ctx
from malt.impl import conversion

STATUSES = [ag_ctx.Status.ENABLED, ag_ctx.Status.DISABLED, ag_ctx.Status.UNSPECIFIED]
CALL_OPTS = [
    converter.ConversionOptions(recursive=True, user_requested=False, optional_features=None),
    # what generated code of a non-recursive conversion passes to the call wrapper
    converter.ConversionOptions(recursive=False, user_requested=True, optional_features=None).call_options(),
]


def _ran_generated(name):
  fr = sys._getframe(1)
  while fr is not None:
    if fr.f_code.co_name == 'ag__' + name:
      return True
    fr = fr.f_back
  return False


_ran_generated = api.do_not_convert(_ran_generated)


def make_call_target(k):
  def called(a, log):
    log.append(_ran_generated('called'))
    if a > k:
      return ('gt', a, k)
    return ('le', a, k)
  return called


def call_pool():
  # three functions sharing ONE code object: two ordinary closures and one that is marked as
  # an artifact (permanently run as-is, and remembered so in the allow-list cache)
  return [make_call_target(1), make_call_target(5), api.autograph_artifact(make_call_target(9))]


def _one_call(f, oi, st, x):
  log = []
  with ag_ctx.ControlStatusCtx(STATUSES[st]):
    r = api.converted_call(f, (x, log), None, options=CALL_OPTS[oi])
  return (r, tuple(log))


_CALL_REF = {}


def call_reference(fi, oi, st):
  """The same request against brand-new caches (transpiler and allow-list) and a brand-new
  function object: what a fresh conversion under these options in this context does."""
  if (fi, oi, st) not in _CALL_REF:
    saved = (api._TRANSPILER, conversion._ALLOWLIST_CACHE)
    api._TRANSPILER = api.PyToPy()
    conversion._ALLOWLIST_CACHE = type(conversion._ALLOWLIST_CACHE)()
    try:
      _CALL_REF[(fi, oi, st)] = tuple(_one_call(call_pool()[fi], oi, st, x) for x in SAMPLES)
    finally:
      api._TRANSPILER, conversion._ALLOWLIST_CACHE = saved
  return _CALL_REF[(fi, oi, st)]


def _call_history(reqs):
  refs = [call_reference(*r) for r in reqs]
  saved = (api._TRANSPILER, conversion._ALLOWLIST_CACHE)
  api._TRANSPILER = api.PyToPy()
  conversion._ALLOWLIST_CACHE = type(conversion._ALLOWLIST_CACHE)()
  try:
    fs = call_pool()
    for (fi, oi, st), ref in zip(reqs, refs):
      got = tuple(_one_call(fs[fi], oi, st, x) for x in SAMPLES)
      if got != ref:
        return False
  finally:
    api._TRANSPILER, conversion._ALLOWLIST_CACHE = saved
  return True


def _decode_call(bits):
  st = int(bits[2]) + 2 * int(bits[3])
  f = int(bits[0]) + 2 * int(bits[4])
  if st > 2 or f > 2:
    return None
  return (f, int(bits[1]), st)


def make_call_history3(f0, o0, s0):
  def h(a0: bool, a1: bool, a2: bool, a3: bool, a4: bool,
        b0: bool, b1: bool, b2: bool, b3: bool, b4: bool) -> bool:
    """
    post: _
    """
    v = deep_realize((a0, a1, a2, a3, a4, b0, b1, b2, b3, b4))
    with NoTracing():
      reqs = [(f0, o0, s0)]
      for k in (0, 5):
        r = _decode_call(v[k:k + 5])
        if r is None:
          return True
        reqs.append(r)
      return _call_history(reqs)
  h.__name__ = h.__qualname__ = 'call_history3_%d_%d_%d' % (f0, o0, s0)
  return h


CALL_HISTORY3 = []
for _f in range(3):
  for _o in range(2):
    for _s in range(3):
      _h = make_call_history3(_f, _o, _s)
      globals()[_h.__name__] = _h
      CALL_HISTORY3.append(_h.__name__)


def reach_twin(a0: bool, a1: bool, a2: bool, a3: bool, a4: bool) -> bool:
  """
  post: _
  """
  v = deep_realize((a0, a1, a2, a3, a4))
  with NoTracing():
    return _decode(v) != (4, 3)


def explain(func, args, kwargs):
  if func.startswith('call_history'):
    return ('converted_call history: first request (function, options, status) = %s, then 5 bits per request '
            '(f=b0+2b4 in [closure k=1, closure k=5, artifact], o=b1, status=b2+2b3 in [ENABLED, DISABLED, UNSPECIFIED]): %r; options=[recursive, non-recursive]' % (
                func.split('_')[2:], args))
  if func.startswith('history4_'):
    return ('4-request history: first request (f, o) = %s, then 4 bits per request (f=SUBPOOL[b0+2b1] of (0, 2, 4, 5), '
            'o=b2+2b3): %r' % (func.split('_')[1:], args))
  return 'request history bits (5 per request: f=b0+2b1+4b2, o=b3+2b4) from harness %s: %r; pool=[shared(k=1,d=10), shared(k=5,d=20), v1.target, v2.target, shared(k=2,d=30) re-created, Stepper(3).step, Stepper(6).step]' % (func, args)
