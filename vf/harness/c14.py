"""C14 unit harnesses: py_builtins.overload_of(b) vs the builtin b.

One harness per (builtin, call shape); argument VALUES are symbolic. The call
shape is a lambda applied once to the builtin and once to its overload.
"""
import io
from typing import List

from malt.operators import py_builtins
from vf.rt import same_value


def _outcome(thunk, fn):
  try:
    return ('ret', thunk(fn))
  except Exception as e:  # pylint:disable=broad-except
    return ('exc', type(e).__name__)


def _same(thunk, b):
  o = py_builtins.overload_of(b)
  return same_value(_outcome(thunk, b), _outcome(thunk, o))


class _Counting(object):
  """Iterable that counts how many items have been pulled (laziness probe)."""

  def __init__(self, items):
    self.items = items
    self.pulled = 0

  def __iter__(self):
    for v in self.items:
      self.pulled += 1
      yield v


def _lazy_outcome(thunk, fn, lists):
  cs = [_Counting(l) for l in lists]
  try:
    it = thunk(fn, *cs)
  except Exception as e:  # pylint:disable=broad-except
    return ('exc-at-call', type(e).__name__)
  before = tuple(c.pulled for c in cs)
  out = []
  first = None
  try:
    it = iter(it)
    for v in it:
      if first is None:
        first = tuple(c.pulled for c in cs)
      out.append(v)
    end = ('done',)
  except Exception as e:  # pylint:disable=broad-except
    end = ('exc', type(e).__name__)
  return (before, first, out, end, tuple(c.pulled for c in cs))


def _same_lazy(thunk, b, *lists):
  o = py_builtins.overload_of(b)
  return same_value(_lazy_outcome(thunk, b, lists), _lazy_outcome(thunk, o, lists))


def _print_outcome(thunk, fn):
  buf = io.StringIO()
  try:
    r = thunk(fn, buf)
    return ('ret', r, buf.getvalue())
  except Exception as e:  # pylint:disable=broad-except
    return ('exc', type(e).__name__, buf.getvalue())


def _same_print(thunk):
  return _print_outcome(thunk, print) == _print_outcome(thunk, py_builtins.overload_of(print))


# -- abs ----------------------------------------------------------------------
def abs_int(x: int) -> bool:
  """ post: _ """
  return _same(lambda B: B(x), abs)


def abs_float(y: float) -> bool:
  """ post: _ """
  return _same(lambda B: B(y), abs)


def abs_bool(b: bool) -> bool:
  """ post: _ """
  return _same(lambda B: B(b), abs)


def abs_str(s: str) -> bool:
  """
  pre: len(s) <= 2
  post: _
  """
  return _same(lambda B: B(s), abs)


# -- float --------------------------------------------------------------------
def float_noarg(x: int) -> bool:
  """ post: _ """
  return _same(lambda B: B(), float)


def float_int(x: int) -> bool:
  """ post: _ """
  return _same(lambda B: B(x), float)


def float_float(y: float) -> bool:
  """ post: _ """
  return _same(lambda B: B(y), float)


def float_bool(b: bool) -> bool:
  """ post: _ """
  return _same(lambda B: B(b), float)


def float_str(s: str) -> bool:
  """
  pre: len(s) <= 2
  post: _
  """
  return _same(lambda B: B(s), float)


def float_list(xs: List[int]) -> bool:
  """
  pre: len(xs) <= 2
  post: _
  """
  return _same(lambda B: B(xs), float)


# -- int ----------------------------------------------------------------------
def int_noarg(x: int) -> bool:
  """ post: _ """
  return _same(lambda B: B(), int)


def int_int(x: int) -> bool:
  """ post: _ """
  return _same(lambda B: B(x), int)


def int_float(y: float) -> bool:
  """ post: _ """
  return _same(lambda B: B(y), int)


def int_bool(b: bool) -> bool:
  """ post: _ """
  return _same(lambda B: B(b), int)


def int_str(s: str) -> bool:
  """
  pre: len(s) <= 2
  post: _
  """
  return _same(lambda B: B(s), int)


def int_str_base_pos(s: str, k: int) -> bool:
  """
  pre: len(s) <= 2 and -1 <= k <= 37
  post: _
  """
  return _same(lambda B: B(s, k), int)


def int_str_base_kw(s: str, k: int) -> bool:
  """
  pre: len(s) <= 2 and -1 <= k <= 37
  post: _
  """
  return _same(lambda B: B(s, base=k), int)


def int_int_base(x: int, k: int) -> bool:
  """
  pre: 0 <= k <= 36
  post: _
  """
  return _same(lambda B: B(x, k), int)


# -- len ----------------------------------------------------------------------
def len_list(xs: List[int]) -> bool:
  """
  pre: len(xs) <= 4
  post: _
  """
  return _same(lambda B: B(xs), len)


def len_str(s: str) -> bool:
  """
  pre: len(s) <= 4
  post: _
  """
  return _same(lambda B: B(s), len)


def len_int(x: int) -> bool:
  """ post: _ """
  return _same(lambda B: B(x), len)


# -- range --------------------------------------------------------------------
def range_1(a: int) -> bool:
  """
  pre: -5 <= a <= 5
  post: _
  """
  return _same(lambda B: list(B(a)), range) and _same(lambda B: B(a), range)


def range_2(a: int, b: int) -> bool:
  """
  pre: -4 <= a <= 4 and -4 <= b <= 4
  post: _
  """
  return _same(lambda B: list(B(a, b)), range) and _same(lambda B: B(a, b), range)


def range_3(a: int, b: int, c: int) -> bool:
  """
  pre: -3 <= a <= 3 and -3 <= b <= 3 and -3 <= c <= 3
  post: _
  """
  return _same(lambda B: list(B(a, b, c)), range) and _same(lambda B: B(a, b, c), range)


def range_float(y: float) -> bool:
  """ post: _ """
  return _same(lambda B: list(B(y)), range)


# -- enumerate ----------------------------------------------------------------
def enumerate_1(xs: List[int]) -> bool:
  """
  pre: len(xs) <= 3
  post: _
  """
  return _same_lazy(lambda B, c: B(c), enumerate, xs)


def enumerate_start_pos(xs: List[int], k: int) -> bool:
  """
  pre: len(xs) <= 3
  post: _
  """
  return _same_lazy(lambda B, c: B(c, k), enumerate, xs)


def enumerate_start_kw(xs: List[int], k: int) -> bool:
  """
  pre: len(xs) <= 3
  post: _
  """
  return _same_lazy(lambda B, c: B(c, start=k), enumerate, xs)


def enumerate_iterable_kw(xs: List[int]) -> bool:
  """
  pre: len(xs) <= 3
  post: _
  """
  return _same_lazy(lambda B, c: B(iterable=c), enumerate, xs)


def enumerate_both_kw(xs: List[int], k: int) -> bool:
  """
  pre: len(xs) <= 3
  post: _
  """
  return _same_lazy(lambda B, c: B(start=k, iterable=c), enumerate, xs)


def enumerate_start_float(xs: List[int], y: float) -> bool:
  """
  pre: len(xs) <= 2
  post: _
  """
  return _same_lazy(lambda B, c: B(c, y), enumerate, xs)


# -- zip ----------------------------------------------------------------------
def zip_0(x: int) -> bool:
  """ post: _ """
  return _same(lambda B: list(B()), zip)


def zip_1(xs: List[int]) -> bool:
  """
  pre: len(xs) <= 3
  post: _
  """
  return _same_lazy(lambda B, c: B(c), zip, xs)


def zip_2(xs: List[int], ys: List[int]) -> bool:
  """
  pre: len(xs) <= 3 and len(ys) <= 3
  post: _
  """
  return _same_lazy(lambda B, c, d: B(c, d), zip, xs, ys)


def zip_2_strict(xs: List[int], ys: List[int], b: bool) -> bool:
  """
  pre: len(xs) <= 3 and len(ys) <= 3
  post: _
  """
  return _same_lazy(lambda B, c, d: B(c, d, strict=b), zip, xs, ys)


def zip_3(xs: List[int], ys: List[int], zs: List[int]) -> bool:
  """
  pre: len(xs) <= 2 and len(ys) <= 2 and len(zs) <= 2
  post: _
  """
  return _same_lazy(lambda B, c, d, e: B(c, d, e), zip, xs, ys, zs)


# -- map / filter -------------------------------------------------------------
def map_1(xs: List[int], k: int) -> bool:
  """
  pre: len(xs) <= 3
  post: _
  """
  return _same_lazy(lambda B, c: B(lambda v: v + k, c), map, xs)


def map_2(xs: List[int], ys: List[int]) -> bool:
  """
  pre: len(xs) <= 3 and len(ys) <= 3
  post: _
  """
  return _same_lazy(lambda B, c, d: B(lambda v, w: v - w, c, d), map, xs, ys)


def map_raises(xs: List[int], k: int) -> bool:
  """
  pre: len(xs) <= 3
  post: _
  """
  def fn(v):
    if v == k:
      raise KeyError(v)
    return v
  return _same_lazy(lambda B, c: B(fn, c), map, xs)


def map_noiter(x: int) -> bool:
  """ post: _ """
  return _same(lambda B: B(abs), map)


def filter_none(xs: List[int]) -> bool:
  """
  pre: len(xs) <= 3
  post: _
  """
  return _same_lazy(lambda B, c: B(None, c), filter, xs)


def filter_pred(xs: List[int], k: int) -> bool:
  """
  pre: len(xs) <= 3
  post: _
  """
  return _same_lazy(lambda B, c: B(lambda v: v > k, c), filter, xs)


# -- any / all ----------------------------------------------------------------
def any_ints(xs: List[int]) -> bool:
  """
  pre: len(xs) <= 4
  post: _
  """
  return _same_lazy(lambda B, c: [B(c)], any, xs)


def all_ints(xs: List[int]) -> bool:
  """
  pre: len(xs) <= 4
  post: _
  """
  return _same_lazy(lambda B, c: [B(c)], all, xs)


def any_bools(bs: List[bool]) -> bool:
  """
  pre: len(bs) <= 4
  post: _
  """
  return _same(lambda B: B(bs), any) and _same(lambda B: B(bs), all)


def any_int(x: int) -> bool:
  """ post: _ """
  return _same(lambda B: B(x), any) and _same(lambda B: B(x), all)


# -- sorted -------------------------------------------------------------------
def sorted_1(xs: List[int]) -> bool:
  """
  pre: len(xs) <= 4
  post: _
  """
  return _same(lambda B: B(xs), sorted)


def sorted_reverse(xs: List[int], b: bool) -> bool:
  """
  pre: len(xs) <= 4
  post: _
  """
  return _same(lambda B: B(xs, reverse=b), sorted)


def sorted_key(xs: List[int], k: int) -> bool:
  """
  pre: len(xs) <= 3
  post: _
  """
  return _same(lambda B: B(xs, key=lambda v: abs(v - k)), sorted)


def sorted_key_reverse(xs: List[int], b: bool) -> bool:
  """
  pre: len(xs) <= 3
  post: _
  """
  return _same(lambda B: B(xs, key=lambda v: -v, reverse=b), sorted)


def sorted_key_none(xs: List[int], b: bool) -> bool:
  """
  pre: len(xs) <= 3
  post: _
  """
  return (_same(lambda B: B(xs, key=None), sorted) and
          _same(lambda B: B(xs, key=None, reverse=b), sorted) and
          _same(lambda B: B(xs, reverse=0), sorted))


def sorted_mixed(xs: List[int], s: str) -> bool:
  """
  pre: len(xs) <= 2 and len(s) <= 1
  post: _
  """
  return _same(lambda B: B(xs + [s]), sorted)


def sorted_stable(xs: List[int]) -> bool:
  """
  pre: len(xs) <= 4
  post: _
  """
  pairs = [(v % 2, i) for i, v in enumerate(xs)]
  return _same(lambda B: B(pairs, key=lambda p: p[0]), sorted)


def sorted_stable_reverse(xs: List[int], b: bool) -> bool:
  """
  pre: len(xs) <= 4
  post: _
  """
  # ties under the key keep their original order, also in reverse order
  pairs = [(v % 2, i) for i, v in enumerate(xs)]
  return (_same(lambda B: B(pairs, key=lambda p: p[0], reverse=b), sorted) and
          _same(lambda B: B(pairs, key=lambda p: p[0], reverse=1), sorted))


def sorted_reverse_badtype(xs: List[int], s: str) -> bool:
  """
  pre: len(xs) <= 2 and len(s) <= 1
  post: _
  """
  return (_same(lambda B: B(xs, reverse=s), sorted) and _same(lambda B: B(xs, reverse=None), sorted) and
          _same(lambda B: B(xs, key=abs, reverse=s), sorted))


# -- print --------------------------------------------------------------------
def print_values(x: int, s: str, b: bool) -> bool:
  """
  pre: len(s) <= 2
  post: _
  """
  return _same_print(lambda B, f: B(x, s, b, file=f))


def print_sep_end(x: int, s: str, e: str) -> bool:
  """
  pre: len(s) <= 2 and len(e) <= 2
  post: _
  """
  return _same_print(lambda B, f: B(x, x, sep=s, end=e, file=f))


def print_flush_none(x: int, b: bool) -> bool:
  """ post: _ """
  return (_same_print(lambda B, f: B(x, file=f, flush=b)) and
          _same_print(lambda B, f: B(file=f)) and
          _same_print(lambda B, f: B(x, sep=None, end=None, file=f)))


def print_bad_sep(x: int) -> bool:
  """ post: _ """
  return _same_print(lambda B, f: B(x, x, sep=x, file=f))


def reach_twin(x: int, xs: List[int]) -> bool:
  """
  pre: len(xs) <= 2
  post: _
  """
  # vacuity guard: must be refuted
  return not (x == 7 and len(xs) == 2)


HARNESSES = [n for n, v in sorted(globals().items())
             if callable(v) and getattr(v, '__doc__', None) and 'post: _' in (v.__doc__ or '')
             and getattr(v, '__module__', None) == __name__ and n != 'reach_twin']


def explain(func, args, kwargs):
  return 'harness %s refuted for args %r (builtin and overload disagree)' % (func, args)
