"""C14 unit harnesses: py_builtins.overload_of(b) vs the builtin b.

One harness per (builtin, call shape); argument VALUES are symbolic. The call
shape is a lambda applied once to the builtin and once to its overload.
"""
import io
from typing import List

from crosshair.core import deep_realize
from crosshair.tracers import NoTracing

from malt.operators import py_builtins
from vf.rt import same_value


def _outcome(thunk, fn):
  try:
    return ('ret', thunk(fn))
  except Exception as e:  # pylint:disable=broad-except
    return ('exc', type(e).__name__)


# Strings handed to C-level parsers (int, float, print separators) cannot be exhausted as
# arbitrary unicode: they are drawn from a fixed alphabet through small symbolic indices, so
# that the solver enumerates every string of the stated length over that alphabet.
ALPHA = ['0', '1', '7', '-', '+', ' ', '.', 'e', 'x', 'a', '_', '\u0663', 'n', 'i', 'f', '\n']


def _str2(ln, i0, i1):
  return ''.join([ALPHA[i0], ALPHA[i1]][:ln])


FLOATS = [0.0, -0.0, 1.5, -1.5, 2.0 ** 53 + 2.0, 1e308, float('inf'), float('-inf'), float('nan'), 0.1, -7.999]


def _same(thunk, b):
  o = py_builtins.overload_of(b)
  return same_value(_outcome(thunk, b), _outcome(thunk, o))


class _Counting(object):
  """Iterable that counts how many items have been pulled (laziness probe)."""

  def __init__(self, items):
    self.items = items
    self.pulled = 0

  def __iter__(self):
    for v in self.items:
      self.pulled += 1
      yield v


def _lazy_outcome(thunk, fn, lists):
  cs = [_Counting(l) for l in lists]
  try:
    it = thunk(fn, *cs)
  except Exception as e:  # pylint:disable=broad-except
    return ('exc-at-call', type(e).__name__)
  before = tuple(c.pulled for c in cs)
  out = []
  first = None
  try:
    it = iter(it)
    for v in it:
      if first is None:
        first = tuple(c.pulled for c in cs)
      out.append(v)
    end = ('done',)
  except Exception as e:  # pylint:disable=broad-except
    end = ('exc', type(e).__name__)
  return (before, first, out, end, tuple(c.pulled for c in cs))


def _same_lazy(thunk, b, *lists):
  o = py_builtins.overload_of(b)
  return same_value(_lazy_outcome(thunk, b, lists), _lazy_outcome(thunk, o, lists))


def _print_outcome(thunk, fn):
  buf = io.StringIO()
  try:
    r = thunk(fn, buf)
    return ('ret', r, buf.getvalue())
  except Exception as e:  # pylint:disable=broad-except
    return ('exc', type(e).__name__, buf.getvalue())


def _same_print(thunk):
  return _print_outcome(thunk, print) == _print_outcome(thunk, py_builtins.overload_of(print))


# -- abs ----------------------------------------------------------------------
def abs_int(x: int) -> bool:
  """ post: _ """
  return _same(lambda B: B(x), abs)


def abs_float(y: float) -> bool:
  """ post: _ """
  return _same(lambda B: B(y), abs)


def abs_bool(b: bool) -> bool:
  """ post: _ """
  return _same(lambda B: B(b), abs)


def abs_str(s: str) -> bool:
  """
  pre: len(s) <= 2
  post: _
  """
  return _same(lambda B: B(s), abs)


# -- float --------------------------------------------------------------------
def float_noarg(x: int) -> bool:
  """ post: _ """
  return _same(lambda B: B(), float)


def float_int(x: int) -> bool:
  """ post: _ """
  return _same(lambda B: B(x), float)


def float_float(y: float) -> bool:
  """ post: _ """
  return _same(lambda B: B(y), float)


def float_bool(b: bool) -> bool:
  """ post: _ """
  return _same(lambda B: B(b), float)


def float_str(l0: bool, l1: bool, a0: bool, a1: bool, a2: bool, a3: bool, c0: bool, c1: bool, c2: bool,
              c3: bool) -> bool:
  """
  post: _
  """
  v = deep_realize((l0, l1, a0, a1, a2, a3, c0, c1, c2, c3))
  with NoTracing():
    ln = _n(v[0:2])
    if ln > 2:
      return True
    s = _str2(ln, _n(v[2:6]), _n(v[6:10]))
    return _same(lambda B: B(s), float)


def float_list(xs: List[int]) -> bool:
  """
  pre: len(xs) <= 2
  post: _
  """
  return _same(lambda B: B(xs), float)


# -- int ----------------------------------------------------------------------
def int_noarg(x: int) -> bool:
  """ post: _ """
  return _same(lambda B: B(), int)


def int_int(x: int) -> bool:
  """ post: _ """
  return _same(lambda B: B(x), int)


def int_float(j: int) -> bool:
  """
  pre: 0 <= j <= 10
  post: _
  """
  y = FLOATS[j]
  return _same(lambda B: B(y), int)


def int_bool(b: bool) -> bool:
  """ post: _ """
  return _same(lambda B: B(b), int)


def int_str(l0: bool, l1: bool, a0: bool, a1: bool, a2: bool, a3: bool, c0: bool, c1: bool, c2: bool,
            c3: bool) -> bool:
  """
  post: _
  """
  v = deep_realize((l0, l1, a0, a1, a2, a3, c0, c1, c2, c3))
  with NoTracing():
    ln = _n(v[0:2])
    if ln > 2:
      return True
    s = _str2(ln, _n(v[2:6]), _n(v[6:10]))
    return _same(lambda B: B(s), int)


BASES = [-1, 0, 1, 2, 10, 16, 36, 37]


def _n(bits):
  return sum(int(b) << k for k, b in enumerate(bits))


def int_str_base_pos(l0: bool, l1: bool, a0: bool, a1: bool, a2: bool, c0: bool, c1: bool, c2: bool,
                     k0: bool, k1: bool, k2: bool) -> bool:
  """
  post: _
  """
  v = deep_realize((l0, l1, a0, a1, a2, c0, c1, c2, k0, k1, k2))
  with NoTracing():
    ln = _n(v[0:2])
    if ln > 2:
      return True
    s = _str2(ln, _n(v[2:5]), _n(v[5:8]))
    return _same(lambda B: B(s, BASES[_n(v[8:11])]), int)


def int_str_base_kw(l0: bool, l1: bool, a0: bool, a1: bool, a2: bool, c0: bool, c1: bool, c2: bool,
                    k0: bool, k1: bool, k2: bool) -> bool:
  """
  post: _
  """
  v = deep_realize((l0, l1, a0, a1, a2, c0, c1, c2, k0, k1, k2))
  with NoTracing():
    ln = _n(v[0:2])
    if ln > 2:
      return True
    s = _str2(ln, _n(v[2:5]), _n(v[5:8]))
    return _same(lambda B: B(s, base=BASES[_n(v[8:11])]), int)


def int_int_base(x: int, k: int) -> bool:
  """
  pre: 0 <= k <= 36
  post: _
  """
  return _same(lambda B: B(x, k), int)


# -- len ----------------------------------------------------------------------
def len_list(xs: List[int]) -> bool:
  """
  pre: len(xs) <= 4
  post: _
  """
  return _same(lambda B: B(xs), len)


def len_str(s: str) -> bool:
  """
  pre: len(s) <= 4
  post: _
  """
  return _same(lambda B: B(s), len)


def len_int(x: int) -> bool:
  """ post: _ """
  return _same(lambda B: B(x), len)


# -- range --------------------------------------------------------------------
def range_1(a: int) -> bool:
  """
  pre: -5 <= a <= 5
  post: _
  """
  return _same(lambda B: list(B(a)), range) and _same(lambda B: B(a), range)


def range_2(a: int, b: int) -> bool:
  """
  pre: -4 <= a <= 4 and -4 <= b <= 4
  post: _
  """
  return _same(lambda B: list(B(a, b)), range) and _same(lambda B: B(a, b), range)


def range_3(a: int, b: int, c: int) -> bool:
  """
  pre: -3 <= a <= 3 and -3 <= b <= 3 and -3 <= c <= 3
  post: _
  """
  return _same(lambda B: list(B(a, b, c)), range) and _same(lambda B: B(a, b, c), range)


def range_float(y: float) -> bool:
  """ post: _ """
  return _same(lambda B: list(B(y)), range)


# -- enumerate ----------------------------------------------------------------
def enumerate_1(xs: List[int]) -> bool:
  """
  pre: len(xs) <= 3
  post: _
  """
  return _same_lazy(lambda B, c: B(c), enumerate, xs)


def enumerate_start_pos(xs: List[int], k: int) -> bool:
  """
  pre: len(xs) <= 3 and -3 <= k <= 3
  post: _
  """
  return _same_lazy(lambda B, c: B(c, k), enumerate, xs)


def enumerate_start_kw(xs: List[int], k: int) -> bool:
  """
  pre: len(xs) <= 3 and -3 <= k <= 3
  post: _
  """
  return _same_lazy(lambda B, c: B(c, start=k), enumerate, xs)


def enumerate_iterable_kw(xs: List[int]) -> bool:
  """
  pre: len(xs) <= 3
  post: _
  """
  return _same_lazy(lambda B, c: B(iterable=c), enumerate, xs)


def enumerate_both_kw(xs: List[int], k: int) -> bool:
  """
  pre: len(xs) <= 3 and -3 <= k <= 3
  post: _
  """
  return _same_lazy(lambda B, c: B(start=k, iterable=c), enumerate, xs)


def enumerate_start_float(xs: List[int], y: float) -> bool:
  """
  pre: len(xs) <= 2
  post: _
  """
  return _same_lazy(lambda B, c: B(c, y), enumerate, xs)


# -- zip ----------------------------------------------------------------------
def zip_0(x: int) -> bool:
  """ post: _ """
  return _same(lambda B: list(B()), zip)


def zip_1(xs: List[int]) -> bool:
  """
  pre: len(xs) <= 3
  post: _
  """
  return _same_lazy(lambda B, c: B(c), zip, xs)


def zip_2(xs: List[int], ys: List[int]) -> bool:
  """
  pre: len(xs) <= 3 and len(ys) <= 3
  post: _
  """
  return _same_lazy(lambda B, c, d: B(c, d), zip, xs, ys)


def zip_2_strict(xs: List[int], ys: List[int], b: bool) -> bool:
  """
  pre: len(xs) <= 3 and len(ys) <= 3
  post: _
  """
  return _same_lazy(lambda B, c, d: B(c, d, strict=b), zip, xs, ys)


def zip_3(xs: List[int], ys: List[int], zs: List[int]) -> bool:
  """
  pre: len(xs) <= 2 and len(ys) <= 2 and len(zs) <= 2
  post: _
  """
  return _same_lazy(lambda B, c, d, e: B(c, d, e), zip, xs, ys, zs)


# -- map / filter -------------------------------------------------------------
def map_1(xs: List[int], k: int) -> bool:
  """
  pre: len(xs) <= 3
  post: _
  """
  return _same_lazy(lambda B, c: B(lambda v: v + k, c), map, xs)


def map_2(xs: List[int], ys: List[int]) -> bool:
  """
  pre: len(xs) <= 3 and len(ys) <= 3
  post: _
  """
  return _same_lazy(lambda B, c, d: B(lambda v, w: v - w, c, d), map, xs, ys)


def map_raises(xs: List[int], k: int) -> bool:
  """
  pre: len(xs) <= 3
  post: _
  """
  def fn(v):
    if v == k:
      raise KeyError(v)
    return v
  return _same_lazy(lambda B, c: B(fn, c), map, xs)


def map_noiter(x: int) -> bool:
  """ post: _ """
  return _same(lambda B: B(abs), map)


def filter_none(xs: List[int]) -> bool:
  """
  pre: len(xs) <= 3
  post: _
  """
  return _same_lazy(lambda B, c: B(None, c), filter, xs)


def filter_pred(xs: List[int], k: int) -> bool:
  """
  pre: len(xs) <= 3
  post: _
  """
  return _same_lazy(lambda B, c: B(lambda v: v > k, c), filter, xs)


# -- any / all ----------------------------------------------------------------
def any_ints(xs: List[int]) -> bool:
  """
  pre: len(xs) <= 4
  post: _
  """
  return _same_lazy(lambda B, c: [B(c)], any, xs)


def all_ints(xs: List[int]) -> bool:
  """
  pre: len(xs) <= 4
  post: _
  """
  return _same_lazy(lambda B, c: [B(c)], all, xs)


def any_bools(bs: List[bool]) -> bool:
  """
  pre: len(bs) <= 4
  post: _
  """
  return _same(lambda B: B(bs), any) and _same(lambda B: B(bs), all)


def any_int(x: int) -> bool:
  """ post: _ """
  return _same(lambda B: B(x), any) and _same(lambda B: B(x), all)


# -- sorted -------------------------------------------------------------------
def sorted_1(xs: List[int]) -> bool:
  """
  pre: len(xs) <= 4
  post: _
  """
  return _same(lambda B: B(xs), sorted)


def sorted_reverse(xs: List[int], b: bool) -> bool:
  """
  pre: len(xs) <= 4
  post: _
  """
  return _same(lambda B: B(xs, reverse=b), sorted)


def sorted_key(xs: List[int], k: int) -> bool:
  """
  pre: len(xs) <= 3
  post: _
  """
  return _same(lambda B: B(xs, key=lambda v: abs(v - k)), sorted)


def sorted_key_reverse(xs: List[int], b: bool) -> bool:
  """
  pre: len(xs) <= 3
  post: _
  """
  return _same(lambda B: B(xs, key=lambda v: -v, reverse=b), sorted)


def sorted_key_none(xs: List[int], b: bool) -> bool:
  """
  pre: len(xs) <= 3
  post: _
  """
  return (_same(lambda B: B(xs, key=None), sorted) and
          _same(lambda B: B(xs, key=None, reverse=b), sorted) and
          _same(lambda B: B(xs, reverse=0), sorted))


def sorted_mixed(xs: List[int], s: str) -> bool:
  """
  pre: len(xs) <= 2 and len(s) <= 1
  post: _
  """
  return _same(lambda B: B(xs + [s]), sorted)


def sorted_stable(xs: List[int]) -> bool:
  """
  pre: len(xs) <= 4
  post: _
  """
  pairs = [(v % 2, i) for i, v in enumerate(xs)]
  return _same(lambda B: B(pairs, key=lambda p: p[0]), sorted)


def sorted_stable_reverse(xs: List[int], b: bool) -> bool:
  """
  pre: len(xs) <= 4
  post: _
  """
  # ties under the key keep their original order, also in reverse order
  pairs = [(v % 2, i) for i, v in enumerate(xs)]
  return (_same(lambda B: B(pairs, key=lambda p: p[0], reverse=b), sorted) and
          _same(lambda B: B(pairs, key=lambda p: p[0], reverse=1), sorted))


def sorted_reverse_badtype(xs: List[int], ln: int, i0: int) -> bool:
  """
  pre: len(xs) <= 2 and 0 <= ln <= 1 and 0 <= i0 <= 15
  post: _
  """
  s = _str2(ln, i0, 0)
  return (_same(lambda B: B(xs, reverse=s), sorted) and _same(lambda B: B(xs, reverse=None), sorted) and
          _same(lambda B: B(xs, key=abs, reverse=s), sorted))


# -- print --------------------------------------------------------------------
def print_values(x0: bool, x1: bool, l0: bool, l1: bool, a0: bool, a1: bool, a2: bool,
                 c0: bool, c1: bool, c2: bool, b: bool) -> bool:
  """
  post: _
  """
  v = deep_realize((x0, x1, l0, l1, a0, a1, a2, c0, c1, c2, b))
  with NoTracing():
    ln = _n(v[2:4])
    if ln > 2:
      return True
    x = _n(v[0:2]) - 1
    s = _str2(ln, _n(v[4:7]), _n(v[7:10]))
    return _same_print(lambda B, f: B(x, s, v[10], file=f))


def print_sep_end(x0: bool, l0: bool, l1: bool, a0: bool, a1: bool, a2: bool, c0: bool, c1: bool,
                  e0: bool, j0: bool, j1: bool) -> bool:
  """
  post: _
  """
  v = deep_realize((x0, l0, l1, a0, a1, a2, c0, c1, e0, j0, j1))
  with NoTracing():
    ln = _n(v[1:3])
    if ln > 2:
      return True
    x = int(v[0]) - 1
    s = _str2(ln, _n(v[3:6]), _n(v[6:8]) + 3)
    e = _str2(int(v[8]), _n(v[9:11]) + 4, 0)
    return _same_print(lambda B, f: B(x, x, sep=s, end=e, file=f))


def print_flush_none(x: int, b: bool) -> bool:
  """
  pre: -11 <= x <= 11
  post: _
  """
  return (_same_print(lambda B, f: B(x, file=f, flush=b)) and
          _same_print(lambda B, f: B(file=f)) and
          _same_print(lambda B, f: B(x, sep=None, end=None, file=f)))


def _redirected(B, x):
  import contextlib
  buf = io.StringIO()
  with contextlib.redirect_stdout(buf):
    B('v', x)
    B(x, end='!')
    B()
  return buf.getvalue()


def print_to_replaced_stdout(x: int) -> bool:
  """
  pre: -11 <= x <= 11
  post: _
  """
  # no file= argument: the stream is whatever sys.stdout is AT THE CALL
  return _redirected(print, x) == _redirected(py_builtins.overload_of(print), x)


def print_bad_sep(x: int) -> bool:
  """
  pre: -11 <= x <= 11
  post: _
  """
  return _same_print(lambda B, f: B(x, x, sep=x, file=f))


def reach_twin(x: int, xs: List[int]) -> bool:
  """
  pre: len(xs) <= 2
  post: _
  """
  # vacuity guard: must be refuted
  return not (x == 7 and len(xs) == 2)


HARNESSES = [n for n, v in sorted(globals().items())
             if callable(v) and getattr(v, '__doc__', None) and 'post: _' in (v.__doc__ or '')
             and getattr(v, '__module__', None) == __name__ and n != 'reach_twin']


def explain(func, args, kwargs):
  return 'harness %s refuted for args %r (builtin and overload disagree)' % (func, args)
