"""C16 unit harnesses: one inductive step of every conversion-status wrapper.

Pre-state: an ARBITRARY valid thread-local stack (symbolic depth 1..4, symbolic
statuses, fresh ctx objects). Step: one real wrapper is entered and left around a
body stub that (induction hypothesis) leaves the stack as it found it and then
returns or raises (symbolic bit). Post: control_status_ctx() IS the object it
was before, the stack is element-wise identical, and inside the body the status
is what the wrapper promises. One step from an arbitrary valid state covers call
trees of any depth.
"""
from malt.core import ag_ctx
from malt.core import converter
from malt.impl import api
from malt.operators import function_wrappers

STATUSES = [ag_ctx.Status.UNSPECIFIED, ag_ctx.Status.ENABLED, ag_ctx.Status.DISABLED]


class _Boom(Exception):
  pass


def _install(depth, s0, s1, s2, s3):
  # The statuses of the pre-existing entries are left as the raw symbolic values:
  # no wrapper may depend on them, and keeping them opaque means the solver covers
  # every value without forking (a wrapper that did inspect one would fork).
  st = [ag_ctx.ControlStatusCtx(s) for s in (s0, s1, s2, s3)[:depth]]
  ag_ctx.stacks.control_status = st
  return list(st)


def _snapshot():
  return list(ag_ctx._control_ctx())


def _same_stack(a, b):
  if len(a) != len(b):
    return False
  for p, q in zip(a, b):
    if p is not q:
      return False
  return True


class _Body(object):
  """The callee stub: observes the context, optionally nests a balanced
  enter/exit (a callee that itself uses a wrapper), then returns or raises."""

  def __init__(self, pre, raises, nest):
    self.pre = pre
    self.raises = raises
    self.nest = nest
    self.seen = None
    self.ok = True
    self.calls = 0

  def __call__(self, *a, **k):
    self.calls += 1
    cur = ag_ctx.control_status_ctx()
    self.seen = cur
    st = _snapshot()
    # the callee sees pre-stack (+ possibly one own ctx of the wrapper)
    if not (_same_stack(st[:len(self.pre)], self.pre) and len(st) - len(self.pre) in (0, 1, 2)):
      self.ok = False
    if self.nest:
      with ag_ctx.ControlStatusCtx(ag_ctx.Status.DISABLED):
        if ag_ctx.control_status_ctx().status != ag_ctx.Status.DISABLED:
          self.ok = False
      if ag_ctx.control_status_ctx() is not cur:
        self.ok = False
    if self.raises:
      raise _Boom()
    return 41


def _run(step, body):
  try:
    r = step(body)
    return ('ret', r)
  except _Boom:
    return ('boom',)


def _check(pre, before, body, out, raises, want_status, pushed):
  if not _same_stack(_snapshot(), pre):
    return False
  if ag_ctx.control_status_ctx() is not before:
    return False
  if body.calls != 1 or not body.ok:
    return False
  if out != (('boom',) if raises else ('ret', 41)):
    return False
  if pushed:
    if body.seen is before or body.seen.status != want_status:
      return False
  else:
    if body.seen is not before:
      return False
  return True


PRE = 'pre: 1 <= depth <= 4 and 0 <= s0 <= 2 and 0 <= s1 <= 2 and 0 <= s2 <= 2 and 0 <= s3 <= 2 and 0 <= s <= 2'


def ctx_block(depth: int, s0: int, s1: int, s2: int, s3: int, s: int, raises: bool, nest: bool) -> bool:
  """
  pre: 1 <= depth <= 4 and 0 <= s0 <= 2 and 0 <= s1 <= 2 and 0 <= s2 <= 2 and 0 <= s3 <= 2 and 0 <= s <= 2
  post: _
  """
  pre = _install(depth, s0, s1, s2, s3)
  before = ag_ctx.control_status_ctx()
  body = _Body(pre, raises, nest)

  def step(b):
    with ag_ctx.ControlStatusCtx(STATUSES[s]):
      return b()

  out = _run(step, body)
  return _check(pre, before, body, out, raises, STATUSES[s], True)


def function_scope(depth: int, s0: int, s1: int, s2: int, s3: int, s: int, raises: bool, nest: bool,
                   user_requested: bool, recursive: bool) -> bool:
  """
  pre: 1 <= depth <= 4 and 0 <= s0 <= 2 and 0 <= s1 <= 2 and 0 <= s2 <= 2 and 0 <= s3 <= 2 and 0 <= s <= 2
  post: _
  """
  pre = _install(depth, s0, s1, s2, s3)
  before = ag_ctx.control_status_ctx()
  body = _Body(pre, raises, nest)
  opts = converter.ConversionOptions(recursive=recursive, user_requested=user_requested,
                                     optional_features=None)

  def step(b):
    with function_wrappers.FunctionScope('f', 'fscope', opts) as fscope:
      return fscope.ret(b(), True)

  out = _run(step, body)
  return _check(pre, before, body, out, raises, ag_ctx.Status.ENABLED, user_requested)


def with_function_scope(depth: int, s0: int, s1: int, s2: int, s3: int, s: int, raises: bool,
                        nest: bool, user_requested: bool) -> bool:
  """
  pre: 1 <= depth <= 4 and 0 <= s0 <= 2 and 0 <= s1 <= 2 and 0 <= s2 <= 2 and 0 <= s3 <= 2 and 0 <= s <= 2
  post: _
  """
  pre = _install(depth, s0, s1, s2, s3)
  before = ag_ctx.control_status_ctx()
  body = _Body(pre, raises, nest)
  opts = converter.ConversionOptions(recursive=True, user_requested=user_requested,
                                     optional_features=None)

  def step(b):
    return function_wrappers.with_function_scope(lambda scope: b(), 'lscope', opts)

  out = _run(step, body)
  return _check(pre, before, body, out, raises, ag_ctx.Status.ENABLED, user_requested)


def do_not_convert(depth: int, s0: int, s1: int, s2: int, s3: int, s: int, raises: bool, nest: bool) -> bool:
  """
  pre: 1 <= depth <= 4 and 0 <= s0 <= 2 and 0 <= s1 <= 2 and 0 <= s2 <= 2 and 0 <= s3 <= 2 and 0 <= s <= 2
  post: _
  """
  pre = _install(depth, s0, s1, s2, s3)
  before = ag_ctx.control_status_ctx()
  body = _Body(pre, raises, nest)
  out = _run(lambda b: api.do_not_convert(b)(1, k=2), body)
  return _check(pre, before, body, out, raises, ag_ctx.Status.DISABLED, True)


def unspecified(depth: int, s0: int, s1: int, s2: int, s3: int, s: int, raises: bool, nest: bool) -> bool:
  """
  pre: 1 <= depth <= 4 and 0 <= s0 <= 2 and 0 <= s1 <= 2 and 0 <= s2 <= 2 and 0 <= s3 <= 2 and 0 <= s <= 2
  post: _
  """
  pre = _install(depth, s0, s1, s2, s3)
  before = ag_ctx.control_status_ctx()
  body = _Body(pre, raises, nest)
  out = _run(lambda b: api.call_with_unspecified_conversion_status(b)(1), body)
  return _check(pre, before, body, out, raises, ag_ctx.Status.UNSPECIFIED, True)


def _stub_converted_call(f, args, kwargs, caller_fn_scope=None, options=None):
  # STUB (listed in evidence): the conversion + call of the target is replaced by
  # calling the body stub directly; conversion itself is C01/C13's subject.
  return f(*args, **(kwargs or {}))


def convert_wrapper(depth: int, s0: int, s1: int, s2: int, s3: int, s: int, raises: bool, nest: bool,
                    use_ctx: bool, user_requested: bool) -> bool:
  """
  pre: 1 <= depth <= 4 and 0 <= s0 <= 2 and 0 <= s1 <= 2 and 0 <= s2 <= 2 and 0 <= s3 <= 2 and 0 <= s <= 2
  post: _
  """
  pre = _install(depth, s0, s1, s2, s3)
  before = ag_ctx.control_status_ctx()
  body = _Body(pre, raises, nest)
  cctx = ag_ctx.ControlStatusCtx(STATUSES[s]) if use_ctx else ag_ctx.NullCtx()
  real = api.converted_call
  api.converted_call = _stub_converted_call
  try:
    out = _run(lambda b: api.convert(recursive=True, user_requested=user_requested,
                                     conversion_ctx=cctx)(b)(1), body)
  finally:
    api.converted_call = real
  return _check(pre, before, body, out, raises, STATUSES[s], use_ctx)


def internal_convert(depth: int, s0: int, s1: int, s2: int, s3: int, s: int, raises: bool, nest: bool,
                     by_default: bool) -> bool:
  """
  pre: 1 <= depth <= 4 and 0 <= s0 <= 2 and 0 <= s1 <= 2 and 0 <= s2 <= 2 and 0 <= s3 <= 2 and 0 <= s <= 2
  post: _
  """
  pre = _install(depth, s0, s1, s2, s3)
  before = ag_ctx.control_status_ctx()
  body = _Body(pre, raises, nest)
  ctx = ag_ctx.ControlStatusCtx(STATUSES[s])
  real = api.converted_call
  api.converted_call = _stub_converted_call
  try:
    out = _run(lambda b: api.internal_convert(b, ctx, convert_by_default=by_default)(1), body)
  finally:
    api.converted_call = real
  st = STATUSES[s]
  if st == ag_ctx.Status.ENABLED or (st == ag_ctx.Status.UNSPECIFIED and by_default):
    want = st           # convert(conversion_ctx=ctx): the given ctx is pushed
  elif st == ag_ctx.Status.DISABLED:
    want = ag_ctx.Status.DISABLED
  else:
    want = ag_ctx.Status.UNSPECIFIED
  return _check(pre, before, body, out, raises, want, True)


def reenter_existing(depth: int, s0: int, s1: int, s2: int, s3: int, s: int, raises: bool, nest: bool,
                     j: int) -> bool:
  """
  pre: 1 <= depth <= 4 and 0 <= s0 <= 2 and 0 <= s1 <= 2 and 0 <= s2 <= 2 and 0 <= s3 <= 2 and 0 <= s <= 2
  pre: 0 <= j < depth
  post: _
  """
  # a context object that is ALREADY on the stack (captured earlier with
  # control_status_ctx()) is entered again below other contexts - the pattern that
  # api.internal_convert documents (ctx captured outside, used inside a do_not_convert region)
  pre = _install(depth, s0, s1, s2, s3)
  before = ag_ctx.control_status_ctx()
  body = _Body(pre, raises, nest)
  again = pre[j]

  def step(b):
    with again:
      return b()

  out = _run(step, body)
  if not _same_stack(_snapshot(), pre) or ag_ctx.control_status_ctx() is not before:
    return False
  if body.calls != 1 or not body.ok or body.seen is not again:
    return False
  return out == (('boom',) if raises else ('ret', 41))


def reenter_via_internal_convert(depth: int, s0: int, s1: int, s2: int, s3: int, s: int, raises: bool,
                                 nest: bool, j: int) -> bool:
  """
  pre: 1 <= depth <= 4 and 0 <= s0 <= 2 and 0 <= s1 <= 2 and 0 <= s2 <= 2 and 0 <= s3 <= 2 and 0 <= s <= 2
  pre: 0 <= j < depth
  post: _
  """
  pre = _install(depth, s0, s1, s2, s3)
  pre[j].status = ag_ctx.Status.ENABLED          # internal_convert dispatches on ctx.status
  before = ag_ctx.control_status_ctx()
  body = _Body(pre, raises, nest)
  real = api.converted_call
  api.converted_call = _stub_converted_call
  try:
    # inside a do_not_convert region, as in the documented usage
    def region(b):
      return api.internal_convert(b, pre[j])(1)
    out = _run(lambda b: api.do_not_convert(region)(b), body)
  finally:
    api.converted_call = real
  if not _same_stack(_snapshot(), pre) or ag_ctx.control_status_ctx() is not before:
    return False
  if body.calls != 1 or body.seen is not pre[j]:
    return False
  return out == (('boom',) if raises else ('ret', 41))


# -- histories through the REAL call wrapper ------------------------------------------
from crosshair.core import deep_realize
from crosshair.tracers import NoTracing


def _make_user_function():
  seen = []

  def work(x, boom):
    seen.append(ag_ctx.control_status_ctx().status)
    if x > 0:
      x = x + 1
    if boom:
      raise _Boom()
    return x

  return api.convert(recursive=True)(work), seen


def _legacy(fn, x, boom):
  # low-level code that must not be converted and happens to call a user function
  return fn(x, boom)


_legacy = api.do_not_convert(_legacy)


def _history(via_legacy, booms):
  """The same convert()-decorated function invoked three times, each time either directly
  or from inside a do_not_convert region, returning or raising: every invocation sees the
  status its own calling context promises (nothing is remembered from earlier invocations)
  and leaves the current status object as it found it."""
  fn, seen = _make_user_function()
  base = ag_ctx.control_status_ctx()
  for legacy, boom in zip(via_legacy, booms):
    del seen[:]
    try:
      r = _legacy(fn, 3, boom) if legacy else fn(3, boom)
      out = ('ret', r)
    except _Boom:
      out = ('boom',)
    if out != (('boom',) if boom else ('ret', 4)):
      return False
    if ag_ctx.control_status_ctx() is not base:
      return False
    if seen != [ag_ctx.Status.DISABLED if legacy else ag_ctx.Status.ENABLED]:
      return False
  return True


def user_requested_history(l0: bool, l1: bool, l2: bool, r0: bool, r1: bool, r2: bool) -> bool:
  """
  post: _
  """
  v = deep_realize((l0, l1, l2, r0, r1, r2))
  with NoTracing():
    return _history(v[:3], v[3:])


def reach_twin(depth: int, s0: int, s1: int, s2: int, s3: int, s: int, raises: bool, nest: bool) -> bool:
  """
  pre: 1 <= depth <= 4 and 0 <= s0 <= 2 and 0 <= s1 <= 2 and 0 <= s2 <= 2 and 0 <= s3 <= 2 and 0 <= s <= 2
  post: _
  """
  _install(depth, s0, s1, s2, s3)
  return not (depth == 4 and s3 == 2 and raises and nest)


HARNESSES = ['ctx_block', 'function_scope', 'with_function_scope', 'do_not_convert', 'unspecified',
             'convert_wrapper', 'internal_convert', 'reenter_existing', 'reenter_via_internal_convert',
             'user_requested_history']


def explain(func, args, kwargs):
  if func == 'user_requested_history':
    return ('three invocations of one convert(recursive=True) function, via do_not_convert region? %r, '
            'raising? %r (real converted_call, real caches)' % (args[:3], args[3:]))
  return 'wrapper %s: pre-stack depth=%r statuses=%r s=%r flags=%r' % (
      func, args[0], args[1:5], args[5], args[6:])
