"""C09 unit harnesses: converted functions keep the calling interface and environment."""
import inspect

import malt
from vf import e1 as _e1
from vf import rt
from vf.harness import c09_other as T2
from vf.harness import c09_targets as T

_e1._patch_late_conversion_detector()

CLO, SETTER, ONLY_C2, LAM = T.make_closures(4, 9)
LOOPFS = T.make_loop_functions()
HOLDER = T.Holder(6)
UNASSIGNED = T.make_unassigned_cell()

FUNCS = {
    'plain': T.plain, 'posonly': T.posonly, 'kwonly': T.kwonly, 'kwonly_required': T.kwonly_required,
    'lam_kwonly': (lambda a, *, k, m: (a, k, m) if a > k else (m, k, a)), 'clo': CLO, 'only_c2': ONLY_C2,
    'lam': LAM, 'loop0': LOOPFS[0], 'loop2': LOOPFS[2], 'unassigned': UNASSIGNED,
    'decorated': T.decorated.__wrapped_fn__, 'meth_unbound': T.Holder.meth,
    # defined in c09_other, __module__ copied from c09_targets by functools.wraps
    'foreign_wrapper': T2.scaled(T.plain),
}
CONV = {}
CONV_ERR = {}


def conv(name):
  if name not in CONV and name not in CONV_ERR:
    try:
      CONV[name] = malt.to_graph(FUNCS[name])
    except Exception as e:  # pylint:disable=broad-except
      CONV_ERR[name] = e
  if name in CONV_ERR:
    raise CONV_ERR[name]
  return CONV[name]


# binding shapes: (number of positionals, tuple of keyword names); values come from
# the symbolic ints in order
SHAPES = {
    'plain': [(0, ()), (1, ()), (2, ()), (3, ()), (4, ()), (1, ('b',)), (0, ('a', 'b', 'c')),
              (2, ('c',)), (2, ('b',)), (1, ('zz',)), (2, ('zz',))],
    'posonly': [(0, ('d',)), (1, ('d',)), (2, ('d',)), (3, ('d', 'e')), (5, ('d',)), (1, ()),
                (1, ('d', 'zz')), (1, ('a', 'd')), (2, ('b', 'd')), (1, ('c', 'd')), (4, ('c', 'd'))],
    'kwonly_required': [(1, ('factor', 'offset')), (1, ('factor',)), (1, ()), (0, ('x', 'factor', 'offset')),
                        (1, ('offset',)), (2, ('offset',)), (1, ('factor', 'offset', 'zz'))],
    'lam_kwonly': [(1, ('k', 'm')), (1, ('k',)), (1, ()), (0, ('a', 'k', 'm'))],
    'kwonly': [(0, ('k',)), (0, ('k', 'm')), (0, ()), (1, ('k',)), (0, ('m',)), (0, ('k', 'zz'))],
    'clo': [(1, ()), (2, ()), (1, ('k',)), (3, ()), (0, ('a', 'b', 'k')), (0, ()), (1, ('b', 'k'))],
    'only_c2': [(1, ()), (0, ('a',)), (2, ())],
    'lam': [(1, ()), (2, ()), (0, ('a', 'b')), (0, ())],
    'loop0': [(1, ()), (2, ()), (0, ('a', 'd'))],
    'loop2': [(1, ()), (1, ('d',))],
    'unassigned': [(1, ()), (0, ())],
    'decorated': [(1, ()), (2, ()), (0, ('a',)), (1, ('b',))],
    'meth_unbound': [(1, ()), (2, ('k',)), (1, ('b', 'k')), (0, ())],
    'foreign_wrapper': [(1, ()), (2, ()), (0, ('a', 'b')), (3, ())],
}


def _call(fn, name, npos, kws, vals):
  vals = list(vals)
  pos = vals[:npos]
  kw = dict(zip(kws, vals[npos:npos + len(kws)]))
  if name == 'meth_unbound':
    pos = [HOLDER] + pos
  return fn(*pos, **kw)


def _binding(name, idx, v):
  npos, kws = SHAPES[name][idx]
  f = FUNCS[name]
  g = conv(name)
  of = rt.obs(lambda: _call(f, name, npos, kws, v), ())
  og = rt.obs(lambda: _call(g, name, npos, kws, v), ())
  return rt.same_obs(of, og)


def make_binding(name, idx):
  def h(v0: int, v1: int, v2: int, v3: int, v4: int) -> bool:
    """
    post: _
    """
    return _binding(name, idx, (v0, v1, v2, v3, v4))

  h.__name__ = h.__qualname__ = 'bind_%s_%d' % (name, idx)
  return h


BINDING = []
for _n in sorted(SHAPES):
  for _i in range(len(SHAPES[_n])):
    _h = make_binding(_n, _i)
    globals()[_h.__name__] = _h
    BINDING.append(_h.__name__)


def prewarm(name):
  """Runs the harness natively a few times first: every conversion / cache fill it needs
  happens before the analysis, so that all explored paths execute the same code."""
  fn = globals()[name]
  k = len(inspect.signature(fn).parameters)
  for v in ((0, 0, 0, 0, 0), (9, 1, 2, 3, 4), (-1, 5, 0, 7, 2)):
    fn(*v[:k])


def shared_cell(v: int, a: int, w: int) -> bool:
  """
  post: _
  """
  # rebinding a closed-over variable through the ORIGINAL sibling setter is seen by
  # the converted function, and both read the same cell afterwards
  g = conv('clo')
  old = SETTER(v)
  try:
    r1 = rt.same_obs(rt.obs(CLO, (a,)), rt.obs(g, (a,)))
    SETTER(w)
    r2 = rt.same_obs(rt.obs(CLO, (a,)), rt.obs(g, (a,)))
    seen = g(a)[3] == w
  finally:
    SETTER(4)
  return r1 and r2 and seen


def shared_global(v: int, a: int) -> bool:
  """
  post: _
  """
  g = conv('plain')
  T.set_global(v)
  try:
    return g(a, 0)[4] == v and rt.same_obs(rt.obs(T.plain, (a, 0)), rt.obs(g, (a, 0)))
  finally:
    T.set_global(5)


def shared_mutable_default(a: int, b: int) -> bool:
  """
  post: _
  """
  f = T.mutable_default
  g = conv_md()
  del f.__defaults__[0][:]
  r1 = f(a)
  r2 = g(b)          # the converted function appends to the SAME default list
  r3 = f(a)
  ok = (r2 == ('few', [a, b]) and r3 == ('many', [a, b, a]) and g.__defaults__[0] is f.__defaults__[0])
  del f.__defaults__[0][:]
  return ok and r1 == ('few', [a])


_MD = []


def conv_md():
  if not _MD:
    _MD.append(malt.to_graph(T.mutable_default))
  return _MD[0]


def bound_method(a: int, b: int, k: int) -> bool:
  """
  post: _
  """
  g = conv_bm()
  return rt.same_obs(rt.obs(lambda: HOLDER.meth(a, b, k=k), ()), rt.obs(lambda: g(HOLDER, a, b, k=k), ()))


_BM = []


def conv_bm():
  if not _BM:
    _BM.append(malt.to_graph(HOLDER.meth))
  return _BM[0]


EMPTY = T.EmptyHolder(6)
_USER_OPTS = None


def bound_method_of_falsy_instance(a: int, b: int, k: int) -> bool:
  """
  post: _
  """
  # the convert() wrapper and the call wrapper bind a bound method's instance first,
  # whatever its truth value
  from malt.core import converter
  from malt.impl import api
  global _USER_OPTS
  if _USER_OPTS is None:
    _USER_OPTS = converter.ConversionOptions(recursive=True, user_requested=True, optional_features=None)
  w = conv_falsy()
  direct = rt.obs(lambda: EMPTY.meth(a, b, k=k), ())
  r1 = rt.same_obs(direct, rt.obs(lambda: w(a, b, k=k), ()))
  r2 = rt.same_obs(direct, rt.obs(lambda: api.converted_call(EMPTY.meth, (a, b), {'k': k}, options=_USER_OPTS), ()))
  r3 = rt.same_obs(rt.obs(lambda: EMPTY.make(a, b), ()),
                   rt.obs(lambda: api.converted_call(EMPTY.make, (a,), {'b': b}, options=_USER_OPTS), ()))
  return r1 and r2 and r3


_FW = []


def conv_falsy():
  if not _FW:
    _FW.append(malt.convert(recursive=True)(EMPTY.meth))
  return _FW[0]


_EARLY = []


def converted_before_assignment(a: int, v: int) -> bool:
  """
  post: _
  """
  if not _EARLY:
    _EARLY.append(T.make_converted_before_assignment())
  inner, conv, setter = _EARLY[0]
  fc = dict(zip(inner.__code__.co_freevars, inner.__closure__))
  gc_ = dict(zip(conv.__code__.co_freevars, conv.__closure__))
  if any(fc[k] is not gc_[k] for k in fc if k in gc_):
    return False
  r1 = rt.same_obs(rt.obs(inner, (a,)), rt.obs(conv, (a,)))
  setter(v)
  try:
    r2 = rt.same_obs(rt.obs(inner, (a,)), rt.obs(conv, (a,))) and conv(0) == v
  finally:
    setter(50)
  return r1 and r2


def shared_global_foreign_module(v: int, a: int, b: int) -> bool:
  """
  post: _
  """
  # the wrapper's globals are those of the module that DEFINES it (c09_other), whatever
  # its __module__ attribute says
  f = FUNCS['foreign_wrapper']
  g = conv('foreign_wrapper')
  T2.set_global(v)
  try:
    return g(a, b)[1] == v and rt.same_obs(rt.obs(f, (a, b)), rt.obs(g, (a, b)))
  finally:
    T2.set_global(1000)


SEMANTIC = ['shared_cell', 'shared_global', 'shared_mutable_default', 'bound_method',
            'shared_global_foreign_module', 'bound_method_of_falsy_instance', 'converted_before_assignment']


def static_conditions():
  """Concrete side conditions (no quantifier left): signature / identity facts."""
  bad = []
  for name, f in sorted(FUNCS.items()):
    try:
      g = conv(name)
    except Exception as e:  # pylint:disable=broad-except
      bad.append('%s: conversion failed: %s: %s' % (name, type(e).__name__, e))
      continue
    # the function's own parameter list (a functools.wraps wrapper advertises the wrapped
    # function's signature through __wrapped__, which is not what calls bind against)
    sf, sg = inspect.signature(f, follow_wrapped=False), inspect.signature(g, follow_wrapped=False)
    if str(sg) != str(sf):
      bad.append('%s: signature %s != %s' % (name, sg, sf))
    fd, gd = f.__defaults__ or (), g.__defaults__ or ()
    if len(fd) != len(gd) or any(p is not q for p, q in zip(fd, gd)):
      bad.append('%s: __defaults__ are not the same objects' % name)
    fk, gk = f.__kwdefaults__ or {}, g.__kwdefaults__ or {}
    if set(fk) != set(gk) or any(fk[k] is not gk[k] for k in fk):
      bad.append('%s: __kwdefaults__ differ' % name)
    if g.__globals__ is not f.__globals__:
      bad.append('%s: __globals__ is a different dict' % name)
    fc = dict(zip(f.__code__.co_freevars, f.__closure__ or ()))
    gc = dict(zip(g.__code__.co_freevars, g.__closure__ or ()))
    for var, cell in gc.items():
      if var in fc and fc[var] is not cell:
        bad.append('%s: free variable %s uses a different cell' % (name, var))
  before = T.DECO_COUNT[0]
  malt.to_graph(T.decorated.__wrapped_fn__)
  malt.to_graph(T.decorated)
  if T.DECO_COUNT[0] != before:
    bad.append('decorator re-applied during conversion')
  return bad


def directive_only_free_var(a: int) -> bool:
  """
  pre: -2 <= a <= 5
  post: _
  """
  f = _DOF[0]
  g = _DOF[1]
  return rt.same_obs(rt.obs(f, (a,)), rt.obs(g, (a,)))


_DOF = []


def setup_directive_only():
  if not _DOF:
    f = T.make_directive_only_free_var()
    _DOF.extend([f, malt.to_graph(f)])
    f2, setter = T.make_directive_only_free_var_sorted_first()
    _DOF.extend([f2, malt.to_graph(f2), setter])


def directive_only_sorted_first(a: int, v: int) -> bool:
  """
  pre: -2 <= a <= 5 and 0 <= v <= 4
  post: _
  """
  f, g, setter = _DOF[2], _DOF[3], _DOF[4]
  r1 = rt.same_obs(rt.obs(f, (a,)), rt.obs(g, (a,)))
  setter(v)
  try:
    r2 = rt.same_obs(rt.obs(f, (a,)), rt.obs(g, (a,))) and g(a)[1] == v
  finally:
    setter(4)
  return r1 and r2


def reach_twin(v0: int, v1: int, v2: int, v3: int, v4: int) -> bool:
  """
  post: _
  """
  return not (v0 == 3 and v4 == 77)


def explain(func, args, kwargs):
  if func.startswith('bind_'):
    name, idx = func[5:].rsplit('_', 1)
    return 'function %s, binding shape (npos, keywords)=%r, values %r' % (name, SHAPES[name][int(idx)], args)
  return '%s values %r' % (func, args)
