"""A second module for C09: a decorator defined HERE wraps functions of c09_targets.

functools.wraps copies __module__ from the wrapped function, so the wrapper's
__module__ names c09_targets while its __globals__ is (and must stay) this
module's dictionary: GV and bump below are what the wrapper's body refers to.
"""
import functools

GV = 1000          # c09_targets binds a different GV


def bump(v):
  return v + 1


def set_global(v):
  global GV
  GV = v


def scaled(fn):
  @functools.wraps(fn)
  def wrapper(a, b=2):
    if a > b:
      r = bump(a) * GV
    else:
      r = GV - b
    return (r, GV, fn.__name__)
  return wrapper
