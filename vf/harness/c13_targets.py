"""Call targets for the C13 harnesses (user code: every function has an `if`
so that conversion is observable through the if_stmt operator)."""
import collections
import functools

from vf.rt import LOG


def fn(a, b=2, *c, k=3, **kw):
  LOG.append(('fn', a, b, c, k, sorted(kw.items())))
  if a > b:
    return a - b + k + len(c)
  return b - a + k + len(kw)


lam = lambda a, b=5: (LOG.append(('lam', a, b)), a if a > b else b)[1]


class K(object):

  def __init__(self, base=10):
    LOG.append(('K.__init__', base))
    self.base = base

  def meth(self, a, b=1):
    LOG.append(('meth', a, b))
    if a > self.base:
      return a + b
    return self.base - b

  @classmethod
  def cmeth(cls, a, b=1):
    LOG.append(('cmeth', cls.__name__, a, b))
    if a > b:
      return a
    return b

  @staticmethod
  def smeth(a, b=1):
    LOG.append(('smeth', a, b))
    if a > b:
      return a * 2
    return b * 2

  def __call__(self, a, b=0):
    LOG.append(('__call__', a, b))
    if a > b:
      return self.base + a
    return self.base + b

  def __eq__(self, other):
    return isinstance(other, K) and other.base == self.base

  def __hash__(self):
    return hash(self.base)


OBJ = K.__new__(K)
OBJ.base = 10


class Falsy(object):
  """An instance that is falsy (empty container protocol)."""

  def __init__(self, items=()):
    self.items = list(items)

  def __len__(self):
    return len(self.items)

  def total(self, a, b=1):
    LOG.append(('total', a, b, len(self.items)))
    if a > b:
      return a + len(self.items)
    return b

  def __call__(self, a):
    LOG.append(('falsy-call', a))
    if a > 0:
      return a
    return -a

  @classmethod
  def make(cls, a):
    LOG.append(('make', cls.__name__, a))
    if a > 1:
      return a
    return 1


EMPTY = Falsy()

part1 = functools.partial(fn, 1, k=7)
part2 = functools.partial(part1, 4, z=9)
part_kw = functools.partial(fn, k=7, q=1)


def gen_fn(a, b=2):
  LOG.append(('gen_fn', a, b))
  if a > b:
    yield a
  yield b


def deco(f):
  @functools.wraps(f)
  def wrapper(*a, **k):
    LOG.append(('deco-wrapper',))
    if len(a) > 5:
      return None
    return f(*a, **k)
  return wrapper


@deco
def decorated(a, b=2):
  LOG.append(('decorated', a, b))
  if a > b:
    return a
  return b


NT = collections.namedtuple('NT', ['a', 'b'])


@functools.lru_cache(maxsize=None)
def cached(a, b=2):
  LOG.append(('cached', a, b))
  if a > b:
    return a
  return b


_ns = {'LOG': LOG}
exec('def execd(a, b=2):\n  LOG.append(("execd", a, b))\n  if a > b:\n    return a\n  return b\n', _ns)  # pylint:disable=exec-used
execd = _ns['execd']


def raises(a, b=2):
  LOG.append(('raises', a, b))
  if a > b:
    raise KeyError('missing')      # (constant key: formatting a symbolic key cannot be exhausted)
  return b


class WeightBase(object):

  def __init__(self, own):
    self.own = own

  def weight(self):
    LOG.append(('base-weight', self.own))
    return self.own


class WeightNode(WeightBase):
  """Zero-argument super() in a method that calls the same method on ANOTHER instance:
  several converted frames of the method are live at once."""

  def __init__(self, own, child=None):
    super().__init__(own)
    self.child = child

  def weight(self):
    w = super().weight()
    if self.child is not None:
      w = w + self.child.weight()
    return w


CHAIN = WeightNode(1, WeightNode(10, WeightNode(100)))


def chain_total(node, k):
  LOG.append(('chain_total', k))
  if k > 0:
    return node.weight() + k
  return node.weight()
