"""C20 unit harnesses: ConversionOptions embedding / equality / hashing / call options.

The configuration space is finite (3 flags x 7 feature bits x spelling): each
harness takes the bits as symbolic booleans, realises them and runs the real
code natively (NoTracing). z3 owns the case split and the final "no assignment
left" verdict: this is solver-exhausted complete enumeration, reported as such.
"""
from crosshair.core import deep_realize
from crosshair.tracers import NoTracing

from malt.core import converter
from malt.impl import api
from malt.pyct import parser

F = converter.Feature
FEATS = [F.ALL, F.AUTO_CONTROL_DEPS, F.ASSERT_STATEMENTS, F.BUILTIN_FUNCTIONS,
         F.EQUALITY_OPERATORS, F.LISTS, F.NAME_SCOPES]
assert set(FEATS) == set(F.__members__.values()), 'Feature enum changed: update vf/harness/c20.py'
AG = api.PyToPy().get_extra_locals()['ag__']

SPELLINGS = ('tuple', 'set', 'list', 'frozenset', 'single_or_none')


def _features(bits, spelling):
  sel = [f for f, b in zip(FEATS, bits) if b]
  if spelling == 'tuple':
    return tuple(sel)
  if spelling == 'set':
    return set(sel)
  if spelling == 'list':
    return list(sel)
  if spelling == 'frozenset':
    return frozenset(sel)
  if spelling == 'single_or_none':
    if not sel:
      return None
    if len(sel) == 1:
      return sel[0]
    return tuple(reversed(sel))
  raise ValueError(spelling)


def _mk(r, u, i, bits, spelling='tuple'):
  return converter.ConversionOptions(recursive=r, user_requested=u, internal_convert_user_code=i,
                                     optional_features=_features(bits, spelling))


def _roundtrip(r, u, i, bits, spelling):
  o = _mk(r, u, i, bits, spelling)
  want = (r, u, i, frozenset(f for f, b in zip(FEATS, bits) if b))
  if o.as_tuple() != want:
    return False
  src = parser.unparse(o.to_ast(), include_encoding_marker=False)
  o2 = eval(src, {'ag__': AG})  # pylint:disable=eval-used
  if not isinstance(o2, converter.ConversionOptions):
    return False
  return o2 == o and o == o2 and hash(o2) == hash(o) and o2.as_tuple() == want


def _make_roundtrip(spelling):
  def h(r: bool, u: bool, i: bool, f0: bool, f1: bool, f2: bool, f3: bool, f4: bool, f5: bool,
        f6: bool) -> bool:
    """
    post: _
    """
    v = deep_realize((r, u, i, f0, f1, f2, f3, f4, f5, f6))
    with NoTracing():
      return _roundtrip(v[0], v[1], v[2], v[3:], spelling)
  h.__name__ = h.__qualname__ = 'roundtrip_' + spelling
  return h


for _s in SPELLINGS:
  globals()['roundtrip_' + _s] = _make_roundtrip(_s)


def _pair(r, u, i, bits, toggle):
  a = _mk(r, u, i, bits)
  v = [r, u, i] + list(bits)
  if toggle >= 0:
    v[toggle] = not v[toggle]
  b = _mk(v[0], v[1], v[2], v[3:], 'set')
  same = toggle < 0
  if (a == b) != same or (b == a) != same:
    return False
  if same and hash(a) != hash(b):
    return False
  if same and len({a: 1, b: 2}) != 1:
    return False
  if not same and len({a: 1, b: 2}) != 2:
    return False
  return True


def _make_pair(toggle):
  def h(r: bool, u: bool, i: bool, f0: bool, f1: bool, f2: bool, f3: bool, f4: bool, f5: bool,
        f6: bool) -> bool:
    """
    post: _
    """
    v = deep_realize((r, u, i, f0, f1, f2, f3, f4, f5, f6))
    with NoTracing():
      return _pair(v[0], v[1], v[2], v[3:], toggle)
  nm = 'pair_same' if toggle < 0 else 'pair_toggle_%d' % toggle
  h.__name__ = h.__qualname__ = nm
  return h


globals()['pair_same'] = _make_pair(-1)
for _k in range(10):
  globals()['pair_toggle_%d' % _k] = _make_pair(_k)


def _call_and_uses(r, u, i, bits):
  o = _mk(r, u, i, bits)
  # the parent is used as a cache key first (as the conversion cache does); the callee options
  # derived afterwards must still hash and compare like a freshly built equal value
  h0 = hash(o)
  table = {o: 'parent'}
  c = o.call_options()
  fresh = converter.ConversionOptions(recursive=r, user_requested=False, internal_convert_user_code=r,
                                      optional_features=_features(bits, 'tuple'))
  if not (c == fresh and fresh == c and hash(c) == hash(fresh) and hash(o) == h0):
    return False
  table[c] = 'callee'
  if table.get(fresh) != 'callee' or table.get(_mk(r, u, i, bits)) != ('callee' if (u is False and i == r) else 'parent'):
    return False
  want_feats = frozenset(f for f, b in zip(FEATS, bits) if b)
  if not (c.recursive == r and c.user_requested is False and c.internal_convert_user_code == r
          and c.optional_features == want_feats):
    return False
  # the options embedded for a callee evaluate back to the callee options
  c2 = eval(parser.unparse(c.to_ast(), include_encoding_marker=False), {'ag__': AG})  # pylint:disable=eval-used
  if c2 != c:
    return False
  for f in FEATS:
    if o.uses(f) != (f in want_feats or F.ALL in want_feats):
      return False
  # STD shortcut: exactly the standard options are embedded as ag__.STD
  is_std = (r, u, i, want_feats) == (True, False, True, frozenset())
  src = parser.unparse(o.to_ast(), include_encoding_marker=False).strip()
  if (src == 'ag__.STD') != is_std:
    return False
  return True


def call_and_uses(r: bool, u: bool, i: bool, f0: bool, f1: bool, f2: bool, f3: bool, f4: bool,
                  f5: bool, f6: bool) -> bool:
  """
  post: _
  """
  v = deep_realize((r, u, i, f0, f1, f2, f3, f4, f5, f6))
  with NoTracing():
    return _call_and_uses(v[0], v[1], v[2], v[3:])


def reach_twin(r: bool, u: bool, i: bool, f0: bool, f1: bool, f2: bool, f3: bool, f4: bool,
               f5: bool, f6: bool) -> bool:
  """
  post: _
  """
  # vacuity guard: must be refuted (the all-True corner is reachable)
  v = deep_realize((r, u, i, f0, f1, f2, f3, f4, f5, f6))
  with NoTracing():
    return not all(v)


# -- the options embedded in code served by the conversion cache ------------------------
import ast as _ast
import inspect as _inspect


def _cache_target(a, b=2):
  if a > b:
    return a - b
  return b


def _embedded_options(g):
  """The options value written into the generated code of g (third argument of the
  FunctionScope call), evaluated in the ag__ namespace."""
  import textwrap
  tree = _ast.parse(textwrap.dedent(_inspect.getsource(g)))
  for n in _ast.walk(tree):
    if (isinstance(n, _ast.Call) and isinstance(n.func, _ast.Attribute) and n.func.attr == 'FunctionScope'
        and len(n.args) >= 3):
      return eval(_ast.unparse(n.args[2]), {'ag__': AG})  # pylint:disable=eval-used
  return None


def _small(bits4):
  r, u, i, f = bits4
  return converter.ConversionOptions(recursive=r, user_requested=u, internal_convert_user_code=i,
                                     optional_features=(F.BUILTIN_FUNCTIONS,) if f else None)


def _cache_pair(bits8):
  """One transpiler instance (real cache), one function, two requests under arbitrary option
  values: each returned function embeds exactly the options of ITS request."""
  tr = api.PyToPy()
  for k in (0, 4):
    o = _small(bits8[k:k + 4])
    g, _, _ = tr.transform(_cache_target, converter.ProgramContext(options=o))
    e = _embedded_options(g)
    if e is None or not (e == o and o == e and e.as_tuple() == o.as_tuple()):
      return False
    if g(5) != 3 or g(1) != 2:
      return False
  return True


def cache_pair(r1: bool, u1: bool, i1: bool, f1: bool, r2: bool, u2: bool, i2: bool, f2: bool) -> bool:
  """
  post: _
  """
  v = deep_realize((r1, u1, i1, f1, r2, u2, i2, f2))
  with NoTracing():
    return _cache_pair(v)


HARNESSES = (['roundtrip_' + s for s in SPELLINGS] + ['pair_same'] + ['cache_pair'] +
             ['pair_toggle_%d' % k for k in range(10)] + ['call_and_uses'])


def explain(func, args, kwargs):
  if func == 'cache_pair':
    return 'two requests for one function against one transpiler: options %r then %r' % (
        _small(args[:4]).as_tuple(), _small(args[4:8]).as_tuple())
  r, u, i = args[:3]
  bits = args[3:]
  o = _mk(r, u, i, bits)
  return 'options=%r embedded=%s' % (o.as_tuple(), parser.unparse(o.to_ast(), include_encoding_marker=False).strip())
