"""Second definition of `target` (same name and line as c10_v1.target)."""


def target(a, b=3):
  if a > b:
    return ('v2-gt', a + 1, b)
  return ('v2-le', a - 1, b)
