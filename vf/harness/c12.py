"""C12 unit harness: error_utils._stack_trace_inside_mapped_code on symbolic frame lists."""
from malt.pyct import error_utils
from malt.pyct import origin_info

FILES = ['gen.py', 'converter.py', 'lib.py']


def _frames(n, f0, l0, f1, l1, f2, l2, f3, l3):
  fr = [(FILES[f0], l0), (FILES[f1], l1), (FILES[f2], l2), (FILES[f3], l3)][:n]
  return [(fn, ln, 'fn%d' % i, 'text%d' % i) for i, (fn, ln) in enumerate(fr)]   # outermost first


def stack_summary(n: int, f0: int, l0: int, f1: int, l1: int, f2: int, l2: int, f3: int, l3: int,
                  m1: bool, m2: bool) -> bool:
  """
  pre: 0 <= n <= 4 and 0 <= f0 <= 2 and 0 <= f1 <= 2 and 0 <= f2 <= 2 and 0 <= f3 <= 2
  pre: 1 <= l0 <= 2 and 1 <= l1 <= 2 and 1 <= l2 <= 2 and 1 <= l3 <= 2
  post: _
  """
  tb = _frames(n, f0, l0, f1, l1, f2, l2, f3, l3)
  smap = {}
  for ln, on in ((1, m1), (2, m2)):
    if on:
      loc = origin_info.LineLocation(filename='gen.py', lineno=ln)
      smap[loc] = origin_info.OriginInfo(
          origin_info.Location(filename='user.py', lineno=10 + ln, col_offset=0), 'userfn', 'src%d' % ln, None)
  out = error_utils._stack_trace_inside_mapped_code(tb, smap, 'converter.py')
  # reference: walk innermost -> outermost
  exp = []
  for fn, ln, name, text in reversed(tb):
    if fn == 'gen.py' and ((ln == 1 and m1) or (ln == 2 and m2)):
      exp.append(('user.py', 10 + ln, True, False))
      break
    if fn == 'converter.py':
      if exp:
        exp[-1] = (exp[-1][0], exp[-1][1], False, True)
      continue
    exp.append((fn, ln, False, False))
  got = [(fi.filename, fi.lineno, fi.is_converted, fi.is_allowlisted) for fi in out]
  return got == exp


def reach_twin(n: int, f0: int, m1: bool) -> bool:
  """
  pre: 0 <= n <= 4 and 0 <= f0 <= 2
  post: _
  """
  return not (n == 4 and f0 == 2 and m1)


HARNESSES = ['stack_summary']


def explain(func, args, kwargs):
  return 'frames=%r mapped lines=%r' % (_frames(*args[:9]), args[9:])
