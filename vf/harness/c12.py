"""C12 unit harness: error_utils._stack_trace_inside_mapped_code on symbolic frame lists."""
from malt.pyct import error_utils
from malt.pyct import origin_info

FILES = ['gen.py', 'converter.py', 'lib.py']


from crosshair.core import deep_realize
from crosshair.tracers import NoTracing


def _frames(bits):
  """3 frame slots x (2 bits file, 1 bit line); file code 3 = no frame (list ends)."""
  fr = []
  for k in range(3):
    f = int(bits[3 * k]) + 2 * int(bits[3 * k + 1])
    if f == 3:
      break
    fr.append((FILES[f], 1 + int(bits[3 * k + 2])))
  return [(fn, ln, 'fn%d' % i, 'text%d' % i) for i, (fn, ln) in enumerate(fr)]   # outermost first


def _summary(bits, m1, m2):
  tb = _frames(bits)
  smap = {}
  for ln, on in ((1, m1), (2, m2)):
    if on:
      loc = origin_info.LineLocation(filename='gen.py', lineno=ln)
      smap[loc] = origin_info.OriginInfo(
          origin_info.Location(filename='user.py', lineno=10 + ln, col_offset=0), 'userfn', 'src%d' % ln, None)
  out = error_utils._stack_trace_inside_mapped_code(tb, smap, 'converter.py')
  exp = []
  for fn, ln, name, text in reversed(tb):
    if fn == 'gen.py' and ((ln == 1 and m1) or (ln == 2 and m2)):
      exp.append(('user.py', 10 + ln, True, False))
      break
    if fn == 'converter.py':
      if exp:
        exp[-1] = (exp[-1][0], exp[-1][1], False, True)
      continue
    exp.append((fn, ln, False, False))
  got = [(fi.filename, fi.lineno, fi.is_converted, fi.is_allowlisted) for fi in out]
  return got == exp


def stack_summary(a0: bool, a1: bool, a2: bool, b0: bool, b1: bool, b2: bool, c0: bool, c1: bool,
                  c2: bool, m1: bool, m2: bool) -> bool:
  """
  post: _
  """
  v = deep_realize((a0, a1, a2, b0, b1, b2, c0, c1, c2, m1, m2))
  with NoTracing():
    return _summary(v[:9], v[9], v[10])


def reach_twin(a0: bool, a1: bool, m1: bool) -> bool:
  """
  post: _
  """
  return not (a0 and a1 and m1)


HARNESSES = ['stack_summary']


def explain(func, args, kwargs):
  return 'frames=%r mapped lines=%r' % (_frames(args[:9]), args[9:])
