"""Programs built around the statement / expression kinds that the skeleton and
random grammars of vf/gen.py do not produce (audit of AST node kinds handled by
malt's visitors vs. kinds occurring in the families: tools/audit_nodes.py).

Signature f(x, n, b, xs) as everywhere; `t(k, v)` is the tracer. Every program
keeps the construct next to (or inside) converted control flow, because that is
where the converters, the analyses and the state tuples have to cope with it.
Used by C01 (default + convert modes), C03, C04 (as far as dispatch is
concerned), C11 (adversarial renaming) and the E2 properties.
"""

PROGS = [
    ('k:annassign', '''def f(x, n, b, xs):
  a: int = t(1, x)
  c: int
  q: 'unknown_name'
  for i in range(n):
    c: int = a + i
    if c > 2:
      a: int = c - 1
  o = O()
  o.v: int = a
  if b:
    c = 0
  return (a, c, o.v)
'''),
    ('k:assert_native', '''def f(x, n, b, xs):
  a = 0
  for i in range(n):
    assert t(1, i) >= 0, t(2, 'neg')
    if i > x:
      assert i != 2, 'two %d' % t(3, i)
      a = a + i
  assert a >= 0
  return a
'''),
    ('k:pass_and_ellipsis', '''def f(x, n, b, xs):
  a = 0
  for i in range(n):
    pass
  while a < n:
    a = a + 1
    if a > x:
      pass
    else:
      ...
  if b:
    pass
  else:
    a = a + 10
  return (a, ...)
'''),
    ('k:import_in_function', '''def f(x, n, b, xs):
  import functools as ft
  a = 0
  if b:
    from operator import add as plus, sub
    a = plus(a, sub(x, 1))
  else:
    from operator import mul as plus
    a = plus(x, 2)
  for i in range(n):
    import operator
    a = operator.add(a, ft.reduce(plus, [i, 1, 2]))
  return a
'''),
    ('k:nested_class', '''def f(x, n, b, xs):
  base = t(1, x)
  class Acc(object):
    step = base + 1
    def __init__(self, v):
      self.v = v
    def add(self, k):
      if k > x:
        self.v = self.v + k * self.step
      else:
        self.v = self.v - 1
      return self
    @property
    def twice(self):
      return self.v * 2
  acc = Acc(0)
  for i in range(n):
    acc = acc.add(i)
    if b:
      class Acc(Acc):
        step = 5
  return (acc.v, acc.twice, Acc.step)
'''),
    ('k:set_dict_gen_comprehensions', '''def f(x, n, b, xs):
  s = {t(1, x), t(2, n), 1}
  a = 0
  for e in sorted(s):
    if e > 0:
      a = a + e
  sq = {v * v for v in range(n) if v != x}
  dc = {k: t(3, k) + a for k in range(n) if k <= x or b}
  g = (t(4, v) for v in xs)
  tot = 0
  for v in g:
    if v > x:
      break
    tot = tot + v
  nested = [[i * j for j in range(i)] for i in range(n)]
  return (a, sorted(sq), dc, tot, list(g), nested, len({a, tot} | sq))
'''),
    ('k:fstrings', '''def f(x, n, b, xs):
  out = ''
  for i in range(n):
    if i > x:
      out = out + f'{t(1, i)}-{x!r:>3}|'
    else:
      out = f'{out}{i:02d}{"," if b else ";"}'
  w = 2
  msg = f'{n:{w}d}/{len(xs)}'
  return (out, msg, f'{out!s}' f'{t(2, n) + 1}')
'''),
    ('k:is_in_operators', '''def f(x, n, b, xs):
  a = None
  c = 0
  for i in range(n):
    if a is None:
      a = t(1, i)
    elif a is not None and i in xs:
      c = c + 1
    if i not in xs:
      c = c + 10
    if t(2, i) in (x, 1) or xs is a:
      c = c + 100
  d = {1: 2}
  if x in d and d[x] is not None:
    c = -c
  return (a, c, x in xs, None is a)
'''),
    ('k:arith_operators', '''class M(object):
  def __rmatmul__(self, other):
    return other + 1000

def f(x, n, b, xs):
  a = 1
  for i in range(n):
    a = a * 3 % 7 + (i // 2) - (i ** 2) + (i << 1) - (i >> 1) + (i & 3) - (i | 1) + (i ^ 2) + ~i
    if a % 2 == 0:
      a //= 2
    else:
      a **= 2
      a %= 50
  c = t(1, x) // t(2, n)
  d = -x % 3 if b else +x
  a <<= 1
  a |= 1
  a &= 255
  a ^= 3
  a >>= 1
  return (a, c, d, 7 / 2, a @ M() if b else 0)
'''),
    ('k:slices_and_starred', '''def f(x, n, b, xs):
  l = [t(1, 1), 2, 3, 4, 5]
  a = 0
  first, *rest = l
  *init, last = xs + [9]
  for i in range(n):
    if l[i:i + 2] == [2, 3]:
      a = a + sum(l[::2])
    l[1:3] = [t(2, i), i]
    head, *l2 = l[t(3, i):]
    a = a + head + len(l2)
  del l[::2]
  r = [*rest, *init, last]
  k = dict(p=1)
  return (a, first, rest, init, last, l, r, helper(*[x, 1]), dict(**k, q=2), l[-1:], l[:], (*xs, 0))
'''),
    ('k:walrus', '''def f(x, n, b, xs):
  a = 0
  for i in range(n):
    if (sq := t(1, i) * i) > x:
      a = a + sq
  c = [y for v in xs if (y := v + 1) > 0]
  y = 0
  for i in range(n):
    c = c + [y for v in xs if (y := v + i) > x]
  z = y
  if b:
    a = a + (z := x + 1)
  return (a, c, z)
'''),
    ('k:chained_and_nested_targets', '''def f(x, n, b, xs):
  a = c = t(1, x)
  (p, q), r = (1, t(2, 2)), 3
  o = O()
  d = {'k': 0}
  for i, (u, w) in enumerate([(1, 2), (3, 4)][:n]):
    o.v, d['k'] = u + i, w
    a, c = c, a + u
    [p, q] = q, p
  for o.w in range(n):
    if o.w > x:
      break
  for d['j'] in xs:
    pass
  return (a, c, p, q, r, o.v, o.w, d)
'''),
    ('k:multi_item_with', '''def f(x, n, b, xs):
  a = 0
  with CM(t(1, 1)) as p, CM(t(2, 2)) as q:
    a = p + q
    for i in range(n):
      with CM(i) as r, CM(r + 1):
        if r > x:
          break
        a = a + r
  try:
    with CM(3), CM(4) as q:
      if b:
        raise UErr(q)
      a = a + q
  except UErr as e:
    a = -a
  return a
'''),
    ('k:try_finally_flow', '''def f(x, n, b, xs):
  a = 0
  for i in range(n):
    try:
      if i == x:
        continue
      if b and i > 1:
        break
      a = a + t(1, i)
    finally:
      a = a + 100
  w = 0
  while w < n:
    w = w + 1
    try:
      try:
        if w == x:
          raise UErr(w)
      finally:
        a = a + 1
    except UErr:
      a = a + 1000
      continue
    else:
      a = a + 7
    finally:
      t(2, a)
  return a
'''),
    ('k:return_in_finally_and_with', '''def f(x, n, b, xs):
  a = 0
  try:
    for i in range(n):
      with CM(t(1, i)) as p:
        if p > x:
          return ('with', a, p)
      a = a + p
    if b:
      raise UErr(a)
  except UErr as e:
    return ('handler', a)
  finally:
    t(2, a)
  return ('end', a)
'''),
    ('k:lambda_defaults_and_closures', '''def f(x, n, b, xs):
  fs = []
  for i in range(n):
    fs.append(lambda k, i=i: t(1, k) + i)
  a = 0
  for g in fs:
    if g(1) > x:
      a = a + g(2)
  h = lambda *p, **kw: (len(p), sorted(kw))
  key = lambda e: -e
  return (a, h(1, 2, z=3), sorted(xs, key=key), (lambda: a)(), [w(0) for w in fs])
'''),
    ('k:generators_called', '''def gen_up_to(k, lim):
  i = 0
  while i < k:
    if i > lim:
      return
    yield i
    i = i + 1

def f(x, n, b, xs):
  a = 0
  for v in gen_up_to(n, x):
    a = a + t(1, v)
  it = gen_up_to(n + 2, 5)
  for v in it:
    if v >= 1:
      break
  return (a, list(it), sum(gen_up_to(3, n)))
'''),
    ('k:star_args_and_keywords', '''def callee(p, *rest, k=0, **kw):
  s = p + k
  for r in rest:
    if r > p:
      s = s + r
  for name in sorted(kw):
    s = s + kw[name]
  return s

def f(x, n, b, xs):
  args = [1, t(1, 2), 3]
  kw = {'k': 5, 'z': x}
  a = callee(*args)
  a = a + callee(0, *xs, k=n)
  a = a + callee(*args[:n], **kw) if n else a
  a = a + callee(p=x, **{'w': 1})
  if b:
    a = a + callee(x, *args, 7, k=1, **{'u': 2})
  return a
'''),
    ('k:string_and_bytes_iteration', '''def f(x, n, b, xs):
  s = 'abc'[:n]
  out = []
  for ch in s:
    if ch == 'b' and b:
      continue
    out.append(ch)
  for k, ch in enumerate('xy'):
    if k > x:
      break
    out.append(ch)
  for byte in b'\\x01\\x02'[:n]:
    out.append(byte)
  d = {'p': 1, 'q': 2}
  for key in d:
    if d[key] > x:
      out.append(key)
  for key, val in d.items():
    out.append(val)
  for e in (1, 2):
    out.append(e)
  for e in {3}:
    out.append(e)
  return out
'''),
    ('k:while_complex_conditions', '''def f(x, n, b, xs):
  i = 0
  a = 0
  while i < n and (t(1, i) != x or b):
    i = i + 1
    a = a + i
  j = n
  while j:
    j = j - 1
    if j == x:
      continue
    a = a + 1
  l = list(xs)
  while l:
    a = a + l.pop()
  while True:
    a = a + 1
    if a > 3:
      break
  while not (a > 100) and a % 7:
    a = a + 1
  return (a, i, j)
'''),
    ('k:global_nonlocal_mix', '''def f(x, n, b, xs):
  global G
  total = 0
  calls = 0
  def add(k):
    nonlocal total, calls
    calls = calls + 1
    if k > x:
      total = total + k
      return True
    return False
  def reader():
    return total + G
  G = G + 1
  for i in range(n):
    if add(i) and b:
      G = G + i
  return (total, calls, reader(), G)
'''),
    ('k:nested_functions_depth3', '''def f(x, n, b, xs):
  a = 1
  def lvl1(p):
    c = p + a
    def lvl2(q):
      d = q + c
      def lvl3(r):
        if r > x:
          return r + d + a
        return d
      s = 0
      for i in range(q):
        s = s + lvl3(i)
      return s
    if p > 1:
      return lvl2(p)
    return lvl2(1) - 1
  tot = 0
  for i in range(n):
    a = a + 1
    tot = tot + lvl1(i)
  return tot
'''),
    ('k:recursion', '''def fact(k, acc):
  if k <= 1:
    return acc
  return fact(k - 1, acc * k)

def f(x, n, b, xs):
  def fib(k):
    if k < 2:
      return k
    return fib(k - 1) + fib(k - 2)
  a = 0
  for i in range(n):
    if i > x:
      a = a + fib(i + 2)
    else:
      a = a + fact(i, 1)
  return a
'''),
    ('k:decorators', '''def twice(fn):
  def inner(*p):
    return fn(*p) * 2
  return inner

def plus(k):
  def deco(fn):
    def inner(*p):
      r = fn(*p)
      if r > 3:
        return r + k
      return r
    return inner
  return deco

def f(x, n, b, xs):
  @twice
  @plus(t(1, 10))
  def g(p):
    if p > x:
      return p
    return 0
  @functools.lru_cache(maxsize=None)
  def cached(p):
    return t(2, p) + 1
  a = 0
  for i in range(n):
    a = a + g(i) + cached(i % 2)
  return a
'''),
    ('k:conditional_expr_nesting', '''def f(x, n, b, xs):
  a = (t(1, 1) if x > 0 else t(2, 2)) if b else (t(3, 3) if n > 1 else t(4, 4))
  c = [t(5, i) if i > x else -i for i in range(n)]
  d = (lambda v: v if v > x else (0 if b else -v))(n)
  e = (x or n) and (b or x) if (x and n) else not x
  g = t(6, 1) if t(7, x) > t(8, n) else t(9, 2)
  return (a, c, d, e, g)
'''),
    ('k:exception_flow', '''def f(x, n, b, xs):
  a = 0
  for i in range(n):
    try:
      if i == x:
        raise UErr(i)
      elif i == x + 1:
        raise UErr2(i)
      a = a + 1
    except (UErr, KeyError) as e:
      a = a + 10
      if b:
        raise UErr2(a) from e
    except UErr2:
      a = a + 100
      try:
        raise
      except UErr2 as inner:
        a = a + 1000
  try:
    a = a + {1: 1}[x]
  except KeyError:
    a = -a
  except Exception:
    a = 0
  return a
'''),
    ('k:raise_to_outer_try', '''def f(x, n, b, xs):
  state = 'start'
  pos = -1
  try:
    for i in range(n):
      try:
        if i == x:
          state = 'aborted'
          pos = t(1, i)
          raise UErr(i)
        if i == x + 1:
          raise UErr2(i)
        state = 'running'
      except UErr2:
        state = 'inner'
      state = 'after'
  except UErr:
    return (state, pos)
  w = 0
  while w < n:
    w = w + 1
    try:
      try:
        if b:
          hit = w
          raise KeyError(w)
      except UErr:
        hit = -1
      hit = 0
    except KeyError:
      return ('key', hit)
  return (state, pos)
'''),
    ('k:del_in_branch', '''def f(x, n, b, xs):
  tmp = t(1, x)
  y = 0
  if b:
    y = tmp
    del tmp
  try:
    y = y + tmp
  except NameError:
    y = -y - 1
  keep = 5
  for i in range(n):
    if i > x:
      del keep
      keep = i
  acc = [1, 2]
  if n > 1:
    del acc
  try:
    z = len(acc)
  except NameError:
    z = -1
  return (y, keep, z)
'''),
    ('k:global_declared_in_nested_function', '''def f(x, n, b, xs):
  G = 0
  H = 'local'
  def bump():
    global G
    G = G + 100
    return G
  def read():
    global H
    return H
  for i in range(n):
    G = G + i
    if i > x:
      H = 'local-updated'
  r = bump() if b else -1
  return (G, H, r, read())
'''),
    ('k:pass_and_continue_tails', '''def f(x, n, b, xs):
  gain = 1
  out = 0
  acc = 0
  for v in xs + [3, 4]:
    out = out + gain * v
    if v > x:
      gain = gain * 2
    else:
      gain = 1
    pass
  i = 0
  while i < n:
    if acc > x:
      out = out + acc
    if i == 1:
      acc = 5
    i = i + 1
    if b:
      continue
    acc = acc + 1
    pass
  return (out, gain, acc)
'''),
    ('k:defaults_read_enclosing_state', '''def f(x, n, b, xs):
  base = t(1, x)
  step = 1
  if b:
    base = base + 1
  def h(a, *, k=base):
    return a + k
  if n > 1:
    step = step + n
  g = lambda a, *, k=step: a * k
  m = 0
  if x > 0:
    m = 7
  else:
    m = 9
  def q(a, k=m):
    return a - k
  return (h(1), g(2), q(3))
'''),
    ('k:try_body_ends_in_return', '''def f(x, n, b, xs):
  if n > 1:
    try:
      if x > 0:
        raise UErr(x)
      return ('early', t(1, x))
    except UErr:
      t(2, 'handled')
  t(3, 'after')
  for e in xs:
    if e > x:
      try:
        if b:
          raise UErr2(e)
        return ('loop', e)
      except UErr2:
        pass
    t(4, e)
  return ('late', n)
'''),
    ('k:several_raises_one_handler', '''def f(x, n, b, xs):
  y = 0
  tag = 'none'
  try:
    if x < 0:
      tag = 'neg'
      raise UErr(x)
    if x > 2:
      tag = 'big'
      y = t(1, x)
      raise UErr(x)
    if b:
      tag = 'flag'
      y = y + 7
      raise UErr(0)
    tag = 'ok'
  except UErr:
    return (tag, y)
  for i in range(n):
    try:
      if i == x:
        y = i
        raise UErr2(i)
      try:
        if i == x + 1:
          y = -i
          raise UErr2(i)
      finally:
        t(2, i)
    except UErr2:
      tag = tag + str(y)
  return (tag, y)
'''),
    ('k:positional_only_parameters', '''def f(x, n, b, xs):
  def clamp(v, lo, hi, /, step=1):
    if v < lo:
      v = lo
    for k in range(step):
      if v > hi:
        v = hi
        lo = lo - 1
    return (v, lo, hi)
  def countdown(m, /):
    r = 0
    while m > 0:
      m = m - 2
      r = r + 1
    return (r, m)
  g = lambda p, /, q=2: p * q if p > x else q
  return (clamp(x, 0, n), clamp(n, x, 2, 2), countdown(n), g(n), g(x, q=3))
'''),
    ('k:class_header_reads', '''def f(x, n, b, xs):
  base = object
  tag = t(1, 'plain')
  if b:
    base = dict
    tag = 'flagged'
  def mark(cls):
    cls.mark = tag
    return cls
  deco = mark
  if n > 1:
    deco = lambda cls: cls
  @deco
  class Record(base):
    base = None
    deco = 'attr'
    tag = n
  kind = 'list'
  if x > 0:
    kind = 'tuple'
  class Meta(type):
    def __new__(mcs, name, bases, ns, kind='none'):
      ns['kind'] = kind
      return type.__new__(mcs, name, bases, ns)
  class WithKw(metaclass=Meta, kind=kind):
    kind = 'own'
  return (Record.__mro__[1].__name__, getattr(Record, 'mark', 'unmarked'), Record.tag, WithKw.kind)
'''),
    ('k:loop_local_rebound_in_nested_block', '''def f(x, n, b, xs):
  tmp = n * 2
  s = tmp
  for i in range(n):
    if i > x:
      tmp = i
    else:
      tmp = -i
    tmp = tmp * 2
    s = s + tmp
  step = 5
  w = 0
  while w < n:
    w = w + 1
    for step in range(w):
      s = s + step
    step = w
    s = s - step
  return s
'''),
    ('k:delete_and_rebind', '''def f(x, n, b, xs):
  a = 1
  c = 2
  for i in range(n):
    tmp = a + i
    if tmp > x:
      c = tmp
    del tmp
  o = O()
  o.v = 5
  d = {'k': 1, 'j': 2}
  if b:
    del d['k']
    del o.v
    o.v = 7
  l = [1, 2, 3]
  del l[0], l[-1]
  return (a, c, d, l, o.v)
'''),
    ('k:docstrings_and_constants', '''def f(x, n, b, xs):
  """Docstring of f."""
  def g(p):
    """Docstring of g."""
    'stray string'
    if p:
      """stray in if"""
      return 1.5e3, 0x10, 1_000, 2j, b'x', None, ..., True
    return -0.0, 'a' 'b'
  a = 0
  for i in range(n):
    42
    a = a + len(g(i > x))
  return (a, g(b), f.__doc__ if False else 'd')
'''),
    ('k:shadowed_builtins', '''def f(x, n, b, xs):
  len = lambda v: 7
  a = len(xs)
  range_ = range
  for i in range_(n):
    if i > x:
      a = a + len([i])
  def print(v):
    return v + 1
  a = print(a)
  sum = 3
  int = sum + a
  return (a, sum, int)
'''),
]

# for/else and while/else are rejected by the converter (documented); analyses only (E2)
ANALYSIS_ONLY = [
    ('k:loop_else', '''def f(x, n, b, xs):
  a = 0
  for i in range(n):
    if t(1, i) == x:
      a = a + 100
      break
    a = a + 1
  else:
    a = a + 1000
  w = 0
  while w < n:
    w = w + 1
    if w > x and b:
      break
  else:
    a = a - 7
    if b:
      return ('else', a)
  for e in xs:
    if e == x:
      continue
    a = a + e
  else:
    for k in range(2):
      a = a * 2
    else:
      a = a + 1
  return (a, w)
'''),
]

GLOBS = {'k:global_nonlocal_mix': {'G': 3}, 'k:global_declared_in_nested_function': {'G': 5, 'H': 'module'}}
NEEDS_HELPER = {'k:slices_and_starred'}


def programs(prefix=''):
  from vf import gen
  out = []
  for n, src in PROGS:
    if n in NEEDS_HELPER:
      src = gen.HELPER_SRC + src
    out.append(gen.Prog(prefix + n, src, {'exotic'}, GLOBS.get(n)))
  return out
