"""Command line: check / replay / audit."""
import argparse
import importlib
import json
import os
import sys


def main(argv):
  ap = argparse.ArgumentParser(prog='vf')
  sub = ap.add_subparsers(dest='cmd', required=True)
  c = sub.add_parser('check')
  c.add_argument('pid')
  c.add_argument('--tier', default=os.environ.get('VERIF_TIER', 'quick'),
                 choices=['quick', 'thorough'])
  r = sub.add_parser('replay')
  r.add_argument('path')
  a = ap.parse_args(argv)
  if a.cmd == 'check':
    mod = importlib.import_module('vf.checks.%s' % a.pid)
    return mod.run(a.tier)
  if a.cmd == 'replay':
    with open(a.path) as fh:
      obj = json.load(fh)
    # some violations depend on set iteration order (e.g. which of two reaching definitions a
    # dict keeps): the replay runs under the hash seed under which it was found
    hs = obj.get('hashseed')
    if hs is not None and os.environ.get('PYTHONHASHSEED') != str(hs):
      import sys
      env = dict(os.environ, PYTHONHASHSEED=str(hs))
      os.execve(sys.executable, [sys.executable, '-m', 'vf', 'replay', a.path], env)
    from vf import replay
    return replay.replay(obj)
  return 2
