"""E3 front end: real Python AST -> per-thread step lists (a tiny IR).

The functions under analysis are re-read from /repo's source on every run and
compiled by a small symbolic compiler: compile-time objects (`self`, the cache
object, the lock, module-level singletons) are resolved statically and their
methods INLINED from the real class bodies; every operation that touches shared
state becomes one atomic `prim` step; everything else is thread-local.

Any statement or expression form the compiler does not recognise raises
Unsupported: the calling check then exits with the harness-error code, never
with success.
"""
import ast


class Unsupported(Exception):
  pass


class Reg(object):
  def __init__(self, name, cls=None):
    self.name = name
    self.cls = cls          # user class name if this register holds an instance of a modelled class

  def __repr__(self):
    return 'Reg(%s)' % self.name


class Const(object):
  def __init__(self, v):
    self.v = v

  def __repr__(self):
    return 'Const(%r)' % (self.v,)


class Opaque(object):
  """A value the model does not track (AST nodes, strings, modules, logging...)."""

  def __repr__(self):
    return 'Opaque'


OPAQUE = Opaque()


class UserObj(object):
  """Compile-time known instance of a class whose methods are inlined."""

  def __init__(self, cls, fields):
    self.cls = cls
    self.fields = fields


class PrimObj(object):
  """Compile-time known primitive object: kind in {'wkdict', 'lock', 'tlocal', 'shared_ns'}."""

  def __init__(self, kind, name):
    self.kind = kind
    self.name = name


class FuncRef(object):
  def __init__(self, node, self_val=None, cls=None):
    self.node = node
    self.self_val = self_val
    self.cls = cls


class ClassRef(object):
  def __init__(self, name):
    self.name = name


class SuperRef(object):
  def __init__(self, self_val):
    self.self_val = self_val


class TupleVal(object):
  def __init__(self, elts):
    self.elts = elts


REG_METHOD_PRIMS = {'append': 'list_append', 'pop': 'list_pop', 'remove': 'list_remove', 'create': 'factory_create',
                    'instantiate': 'factory_instantiate'}


class Frame(object):
  _n = [0]

  def __init__(self):
    Frame._n[0] += 1
    self.id = Frame._n[0]
    self.locals = {}
    self.ret = None
    self.ret_jumps = []

  def reg(self, name):
    return 'f%d.%s' % (self.id, name)


class Compiler(object):

  def __init__(self, functions, classes, statics, hooks=None, opaque_roots=()):
    """functions: name -> FunctionDef; classes: name -> {method -> FunctionDef};
    statics: name -> compile-time value; hooks: object with optional methods
    call_hook(compiler, node, frame) -> Val or None."""
    self.functions = functions
    self.classes = classes
    self.statics = statics
    self.hooks = hooks
    self.opaque_roots = set(opaque_roots)
    self.code = []
    self.ntmp = 0
    self.alloc_sites = 0

  # -- emit helpers -----------------------------------------------------------
  def emit(self, *ins):
    self.code.append(tuple(ins))
    return len(self.code) - 1

  def tmp(self):
    self.ntmp += 1
    return 'tmp%d' % self.ntmp

  def as_operand(self, v):
    if isinstance(v, Reg):
      return v.name
    if isinstance(v, Const):
      return ('const', v.v)
    raise Unsupported('operand must be dynamic or constant, got %r' % (v,))

  def prim(self, op, args, lineno, want_result=True, cls=None):
    dst = self.tmp() if want_result else None
    self.emit('prim', dst, op, [self.as_operand(a) for a in args], lineno)
    return Reg(dst, cls) if want_result else Const(0)

  # -- expressions ----------------------------------------------------------------
  def ev(self, node, fr):
    if self.hooks is not None:
      r = self.hooks.expr_hook(self, node, fr)
      if r is not None:
        return r
    if isinstance(node, ast.Constant):
      v = node.value
      if v is None or v is False:
        return Const(0)
      if v is True:
        return Const(1)
      if isinstance(v, int):
        return Const(v)
      return OPAQUE
    if isinstance(node, ast.Name):
      if node.id in fr.locals:
        return fr.locals[node.id]
      if node.id in self.statics:
        return self.statics[node.id]
      if node.id in self.functions:
        return FuncRef(self.functions[node.id])
      if node.id in self.classes:
        return ClassRef(node.id)
      if node.id in self.opaque_roots or node.id in ('isinstance', 'len', 'str', 'repr', 'getattr', 'tuple'):
        return OPAQUE
      if node.id in ('hasattr', 'super'):
        return node.id
      raise Unsupported('unknown name %r at line %d' % (node.id, node.lineno))
    if isinstance(node, ast.Attribute):
      v = self.ev(node.value, fr)
      return self.attr(v, node.attr, node, fr)
    if isinstance(node, ast.Call):
      return self.call(node, fr)
    if isinstance(node, ast.Subscript):
      recv = self.ev(node.value, fr)
      if isinstance(recv, UserObj) and '__getitem__' in self.classes.get(recv.cls, {}):
        return self.inline(FuncRef(self.classes[recv.cls]['__getitem__'], recv, recv.cls),
                           [self.ev(node.slice, fr)], {}, node)
      if isinstance(recv, Reg):
        if (isinstance(node.slice, ast.UnaryOp) and isinstance(node.slice.op, ast.USub)
            and isinstance(node.slice.operand, ast.Constant) and node.slice.operand.value == 1):
          return self.prim('list_top', [recv], node.lineno)
        key = self.ev(node.slice, fr)
        return self.prim('dict_load', [recv, key], node.lineno)
      if isinstance(recv, Opaque):
        return OPAQUE
      raise Unsupported('subscript on %r at line %d' % (recv, node.lineno))
    if isinstance(node, ast.Compare):
      if len(node.ops) != 1:
        raise Unsupported('chained comparison at line %d' % node.lineno)
      op = node.ops[0]
      l = self.ev(node.left, fr)
      r = self.ev(node.comparators[0], fr)
      if isinstance(l, Opaque) or isinstance(r, Opaque):
        return OPAQUE
      if isinstance(op, (ast.Is, ast.IsNot, ast.Eq, ast.NotEq)):
        d = self.tmp()
        self.emit('is', d, self.as_operand(l), self.as_operand(r))
        if isinstance(op, (ast.IsNot, ast.NotEq)):
          d2 = self.tmp()
          self.emit('not', d2, d)
          return Reg(d2)
        return Reg(d)
      if isinstance(op, (ast.In, ast.NotIn)):
        res = self.prim('dict_contains', [r, l], node.lineno)
        if isinstance(op, ast.NotIn):
          d2 = self.tmp()
          self.emit('not', d2, res.name)
          return Reg(d2)
        return res
      raise Unsupported('comparison %s at line %d' % (type(op).__name__, node.lineno))
    if isinstance(node, ast.UnaryOp) and isinstance(node.op, ast.Not):
      v = self.ev(node.operand, fr)
      if isinstance(v, Opaque):
        return OPAQUE
      if isinstance(v, Const):
        return Const(0 if v.v else 1)
      d = self.tmp()
      self.emit('not', d, self.as_operand(v))
      return Reg(d)
    if isinstance(node, ast.List):
      if len(node.elts) == 1:
        e = self.ev(node.elts[0], fr)
        return self.prim('new_list1', [e], node.lineno)
      raise Unsupported('list display with %d elements at line %d' % (len(node.elts), node.lineno))
    if isinstance(node, ast.Dict):
      if not node.keys:
        return self.prim('new_dict', [], node.lineno)
      return OPAQUE
    if isinstance(node, ast.Tuple):
      return TupleVal([self.ev(e, fr) for e in node.elts])
    if isinstance(node, (ast.JoinedStr, ast.BinOp)):
      return OPAQUE
    raise Unsupported('expression %s at line %d' % (type(node).__name__, getattr(node, 'lineno', 0)))

  def ev_arg(self, node, fr):
    """Argument expressions the model cannot evaluate are untracked values, provided they
    are free of calls (no hidden effect on shared state)."""
    try:
      return self.ev(node, fr)
    except Unsupported:
      if any(isinstance(n, ast.Call) for n in ast.walk(node)):
        raise
      return OPAQUE

  def attr(self, v, name, node, fr):
    if isinstance(v, UserObj):
      if name in v.fields:
        return v.fields[name]
      m = self.classes.get(v.cls, {}).get(name)
      if m is not None:
        return FuncRef(m, v, v.cls)
      raise Unsupported('attribute %s.%s at line %d' % (v.cls, name, node.lineno))
    if isinstance(v, PrimObj) and v.kind in ('tlocal', 'shared_ns'):
      return self.prim('ns_getattr', [Const(0)], node.lineno)
    if isinstance(v, Reg):
      if v.cls and name in self.classes.get(v.cls, {}):
        return FuncRef(self.classes[v.cls][name], v, v.cls)
      if name == '__code__':
        return v               # STUB: the code object of an entity is identified with the entity's key
      return ('regattr', v, name)
    if isinstance(v, (Opaque, TupleVal, Const)):
      return OPAQUE
    if isinstance(v, tuple) and v and v[0] == 'regattr':
      return OPAQUE
    if isinstance(v, SuperRef):
      return ('super_method', v, name)
    raise Unsupported('attribute %s of %r at line %d' % (name, v, node.lineno))

  def call(self, node, fr):
    f = self.ev(node.func, fr)
    if f == 'hasattr':
      tgt = self.ev(node.args[0], fr)
      nm = node.args[1].value if isinstance(node.args[1], ast.Constant) else None
      if isinstance(tgt, PrimObj) and tgt.kind in ('tlocal', 'shared_ns'):
        return self.prim('ns_hasattr', [Const(0)], node.lineno)
      if isinstance(tgt, Reg) and nm == '__code__':
        return Const(1)        # STUB: requests are plain functions
      return OPAQUE
    if f == 'super':
      return SuperRef(fr.locals.get('self'))
    if isinstance(f, Opaque):
      for a in node.args:
        self.ev_arg(a, fr)
      return OPAQUE
    args = [self.ev_arg(a, fr) for a in node.args]
    kwargs = dict((k.arg, self.ev_arg(k.value, fr)) for k in node.keywords if k.arg)
    if isinstance(f, FuncRef):
      return self.inline(f, args, kwargs, node)
    if isinstance(f, ClassRef):
      return self.prim('new_' + f.name, [], node.lineno, cls=f.name)
    if isinstance(f, tuple) and f[0] == 'regattr':
      _, recv, name = f
      if name in REG_METHOD_PRIMS:
        dyn = [a for a in args if isinstance(a, (Reg, Const))][:1] if name in ('append', 'remove') else []
        return self.prim(REG_METHOD_PRIMS[name], [recv] + dyn, node.lineno)
      if name == 'get':
        return self.prim('dict_get', [recv, args[0]], node.lineno)
      raise Unsupported('method %s on a dynamic value at line %d' % (name, node.lineno))
    if isinstance(f, tuple) and f[0] == 'primmethod':
      _, obj, name = f
      if obj.kind == 'wkdict' and name == 'get':
        return self.prim('wk_get', [args[0]], node.lineno)
      raise Unsupported('method %s of %s at line %d' % (name, obj.kind, node.lineno))
    if isinstance(f, tuple) and f[0] == 'super_method':
      if self.hooks is None:
        raise Unsupported('super call at line %d' % node.lineno)
      return self.hooks.super_call(self, f[2], node, fr)
    raise Unsupported('call of %r at line %d' % (f, node.lineno))

  def inline(self, fref, args, kwargs, node):
    fn = fref.node
    fr = Frame()
    params = [a.arg for a in fn.args.args]
    vals = list(args)
    if fref.self_val is not None:
      vals = [fref.self_val] + vals
    if len(vals) > len(params):
      raise Unsupported('too many arguments inlining %s' % fn.name)
    defaults = fn.args.defaults
    for i, p in enumerate(params):
      if i < len(vals):
        v = vals[i]
      elif p in kwargs:
        v = kwargs[p]
      else:
        k = i - (len(params) - len(defaults))
        if k < 0:
          raise Unsupported('missing argument %s inlining %s' % (p, fn.name))
        v = self.ev(defaults[k], fr)
      if isinstance(v, Reg):
        r = fr.reg(p)
        self.emit('mov', r, v.name)
        v = Reg(r, v.cls)
      fr.locals[p] = v
    fr.ret = fr.reg('__ret')
    fr.ret_static = []
    self.emit('const', fr.ret, 0)
    self.block(fn.body, fr)
    end = len(self.code)
    for j in fr.ret_jumps:
      self.code[j] = ('jmp', end)
    statics = [v for v in fr.ret_static if not isinstance(v, (Reg, Const))]
    if statics:
      if len(fr.ret_static) == 1 or all(s is statics[0] for s in fr.ret_static):
        return statics[0]
      if all(isinstance(s, Opaque) for s in statics) and len(statics) == len(fr.ret_static):
        return OPAQUE
      raise Unsupported('function %s returns different compile-time objects' % fn.name)
    cls = None
    for v in fr.ret_static:
      if isinstance(v, Reg) and v.cls:
        cls = v.cls
    return Reg(fr.ret, cls)

  # -- statements -------------------------------------------------------------------
  def block(self, stmts, fr):
    for s in stmts:
      self.stmt(s, fr)

  def is_empty(self, stmts, fr):
    """Compile into a scratch buffer: True iff no shared-state or register effect results."""
    saved, self.code = self.code, []
    saved_locals = dict(fr.locals)
    try:
      self.block(stmts, fr)
      eff = [i for i in self.code if i[0] not in ('mov', 'const') or True]
      return len(self.code) == 0
    finally:
      self.code = saved
      fr.locals = saved_locals

  def bind(self, target, val, fr, node):
    if isinstance(target, ast.Name):
      if isinstance(val, (Reg, Const)):
        r = fr.reg(target.id)
        if isinstance(val, Reg):
          self.emit('mov', r, val.name)
          fr.locals[target.id] = Reg(r, val.cls)
        else:
          self.emit('const', r, val.v)
          fr.locals[target.id] = Reg(r)
      else:
        fr.locals[target.id] = val
      return
    if isinstance(target, (ast.Tuple, ast.List)):
      if isinstance(val, TupleVal) and len(val.elts) == len(target.elts):
        for t, v in zip(target.elts, val.elts):
          self.bind(t, v, fr, node)
      else:
        for t in target.elts:
          self.bind(t, OPAQUE, fr, node)
      return
    if isinstance(target, ast.Subscript):
      recv = self.ev(target.value, fr)
      key = self.ev(target.slice, fr)
      if isinstance(recv, PrimObj) and recv.kind == 'wkdict':
        self.prim('wk_set', [key, val], node.lineno, want_result=False)
        return
      if isinstance(recv, Reg):
        self.prim('dict_set', [recv, key, val], node.lineno, want_result=False)
        return
      if isinstance(recv, Opaque):
        return
      raise Unsupported('subscript store on %r at line %d' % (recv, node.lineno))
    if isinstance(target, ast.Attribute):
      recv = self.ev(target.value, fr)
      if isinstance(recv, PrimObj) and recv.kind in ('tlocal', 'shared_ns'):
        self.prim('ns_setattr', [val], node.lineno, want_result=False)
        return
      if isinstance(recv, (Opaque,)) or (isinstance(recv, tuple) and recv[0] == 'regattr'):
        return
      if isinstance(recv, Reg):
        return               # attribute of a modelled dynamic object: fields are not tracked
      raise Unsupported('attribute store on %r at line %d' % (recv, node.lineno))
    raise Unsupported('assignment target %s at line %d' % (type(target).__name__, node.lineno))

  def stmt(self, s, fr):
    if isinstance(s, ast.Expr):
      if isinstance(s.value, ast.Constant):
        return            # docstring
      self.ev(s.value, fr)
      return
    if isinstance(s, ast.Assign):
      val = self.ev(s.value, fr)
      if isinstance(val, Reg) and len(s.targets) > 1:
        pass
      for t in s.targets:
        self.bind(t, val, fr, s)
      return
    if isinstance(s, ast.Return):
      val = self.ev(s.value, fr) if s.value is not None else Const(0)
      if isinstance(val, TupleVal):
        dyn = [e for e in val.elts if isinstance(e, (Reg, Const))]
        val = dyn[0] if dyn else OPAQUE
      fr.ret_static.append(val)
      if isinstance(val, Reg):
        self.emit('mov', fr.ret, val.name)
      elif isinstance(val, Const):
        self.emit('const', fr.ret, val.v)
      fr.ret_jumps.append(self.emit('jmp', None))
      return
    if isinstance(s, ast.If):
      t = self.ev(s.test, fr)
      if isinstance(t, Const):
        self.block(s.body if t.v else s.orelse, fr)
        return
      if isinstance(t, Opaque):
        if not (self.is_empty(s.body, fr) and self.is_empty(s.orelse, fr)):
          raise Unsupported('branch on an untracked value with modelled effects at line %d' % s.lineno)
        # bind locals assigned in the branches to Opaque
        for n in ast.walk(s):
          if isinstance(n, ast.Name) and isinstance(n.ctx, ast.Store) and n.id not in fr.locals:
            fr.locals[n.id] = OPAQUE
        return
      j = self.emit('jmpf', self.as_operand(t), None)
      self.block(s.body, fr)
      if s.orelse:
        j2 = self.emit('jmp', None)
        self.code[j] = ('jmpf', self.code[j][1], len(self.code))
        self.block(s.orelse, fr)
        self.code[j2] = ('jmp', len(self.code))
      else:
        self.code[j] = ('jmpf', self.code[j][1], len(self.code))
      return
    if isinstance(s, ast.With):
      if len(s.items) != 1:
        raise Unsupported('with statement with several items at line %d' % s.lineno)
      cm = self.ev(s.items[0].context_expr, fr)
      if not (isinstance(cm, PrimObj) and cm.kind == 'lock'):
        raise Unsupported('with statement on %r at line %d' % (cm, s.lineno))
      self.emit('prim', None, 'lock_acquire', [], s.lineno)
      self.block(s.body, fr)
      # returns inside the block jump past the release: route them through it
      rel = self.emit('prim', None, 'lock_release', [], s.lineno)
      return
    if isinstance(s, ast.Assert):
      t = self.ev(s.test, fr)
      if isinstance(t, Opaque):
        return
      self.emit('assert', self.as_operand(t), 'assert at line %d' % s.lineno, s.lineno)
      return
    if isinstance(s, ast.Pass):
      return
    if isinstance(s, ast.Raise):
      self.emit('fail', 'raise at line %d' % s.lineno)
      return
    raise Unsupported('statement %s at line %d' % (type(s).__name__, s.lineno))


def primmethod_attr(compiler_cls):
  """Patch Compiler.attr to expose methods of primitive objects."""
  orig = compiler_cls.attr

  def attr(self, v, name, node, fr):
    if isinstance(v, PrimObj) and v.kind == 'wkdict':
      return ('primmethod', v, name)
    return orig(self, v, name, node, fr)

  compiler_cls.attr = attr


primmethod_attr(Compiler)


def parse_module(path):
  with open(path) as fh:
    tree = ast.parse(fh.read())
  functions, classes, assigns = {}, {}, {}
  for n in tree.body:
    if isinstance(n, ast.FunctionDef):
      functions[n.name] = n
    elif isinstance(n, ast.ClassDef):
      classes[n.name] = dict((m.name, m) for m in n.body if isinstance(m, ast.FunctionDef))
      classes[n.name]['__bases__'] = [ast.unparse(b) for b in n.bases]
    elif isinstance(n, ast.Assign) and len(n.targets) == 1 and isinstance(n.targets[0], ast.Name):
      assigns[n.targets[0].id] = n.value
  return functions, classes, assigns
