"""Operator backends injected through the documented seam PyToPy.get_extra_locals.

Each backend is a subclass of the REAL malt.impl.api.PyToPy (own cache, real
transform_ast) whose `ag__` module is a copy of the real one with a few
operators replaced:

  functional   C02: tracing-style operators that touch variables only through
               get_state/set_state (both branches run, loop body traced once)
  contract     C03: default operators wrapped with calling-contract assertions
  opaque       C04: values are wrapped in T (bool(T) raises NativeBool); only
               the overloadable operators can look inside
"""
import importlib
import inspect
import sys
import types

_TRANSPILERS = {}


class ContractViolation(Exception):
  pass


class NativeBool(Exception):
  """A native if/while/and/or/not/ifexp looked at an opaque value."""


class NotDispatched(Exception):
  """A user callee ran without going through converted_call."""


def _transpiler(backend):
  if backend in _TRANSPILERS:
    return _TRANSPILERS[backend]
  from malt.impl import api

  class Backend(api.PyToPy):

    def get_extra_locals(self):
      if self._extra_locals is None:
        base = super(Backend, self).get_extra_locals()['ag__']
        spec = importlib.machinery.ModuleSpec('malt', None)
        mod = importlib.util.module_from_spec(spec)
        mod.__dict__.update(base.__dict__)
        for k, v in OVERRIDES[backend](base).items():
          setattr(mod, k, v)
        self._extra_locals = {'ag__': mod}
      return self._extra_locals

  tr = Backend()
  _TRANSPILERS[backend] = tr
  return tr


def convert_with(backend, f, options):
  from malt.core import converter
  from malt.impl import api
  tr = _transpiler(backend)
  g, module, source_map = tr.transform(f, converter.ProgramContext(options=options))
  g.ag_module = module
  g.ag_source_map = source_map
  return api.autograph_artifact(g)


# ---------------------------------------------------------------------------
# functional backend (C02)
# ---------------------------------------------------------------------------

def _functional(base):
  from malt.operators import variables

  def if_stmt(cond, body, orelse, get_state, set_state, symbol_names, nouts):
    init = get_state()
    body()
    a = get_state()
    set_state(init)
    orelse()
    b = get_state()
    chosen = a if cond else b
    # only declared outputs leave the conditional; the rest is restored
    set_state(tuple(chosen[:nouts]) + tuple(init[nouts:]))

  def while_stmt(test, body, get_state, set_state, symbol_names, opts):
    init = get_state()
    test()
    body()            # traced once, out of band, even for a zero-trip loop
    set_state(init)
    s = init
    while True:
      set_state(s)    # carried state is re-injected before every iteration
      if not test():
        break
      body()
      s = get_state()
    set_state(s)

  def for_stmt(iter_, extra_test, body, get_state, set_state, symbol_names, opts):
    items = list(iter_)
    init = get_state()
    if extra_test is not None:
      extra_test()
    body(items[0] if items else 0)   # traced once with a placeholder element
    set_state(init)
    s = init
    for it in items:
      set_state(s)
      if extra_test is not None and not extra_test():
        break
      body(it)
      s = get_state()
    set_state(s)

  return {'if_stmt': if_stmt, 'while_stmt': while_stmt, 'for_stmt': for_stmt}


# ---------------------------------------------------------------------------
# contract backend (C03)
# ---------------------------------------------------------------------------

class _Sent(object):

  def __init__(self, i):
    self.i = i

  def __repr__(self):
    return '<sentinel %d>' % self.i


CONTRACT = {'calls': 0, 'loop_opts': None, 'iter_names': None}


def _arity(fn):
  try:
    sig = inspect.signature(fn)
  except (TypeError, ValueError):
    return None
  n = 0
  for p in sig.parameters.values():
    if p.kind in (p.POSITIONAL_ONLY, p.POSITIONAL_OR_KEYWORD) and p.default is p.empty:
      n += 1
    elif p.kind in (p.VAR_POSITIONAL, p.VAR_KEYWORD):
      return None
  return n


def _same(a, b):
  if a is b:
    return True
  from malt.operators import variables
  if isinstance(a, variables.Undefined) or isinstance(b, variables.Undefined):
    # reading a composite that does not exist yet (`for d['j'] in xs`) makes a fresh
    # Undefined marker on every read; two markers for the same symbol are the same value
    return (isinstance(a, variables.Undefined) and isinstance(b, variables.Undefined)
            and object.__getattribute__(a, 'symbol_name') == object.__getattribute__(b, 'symbol_name'))
  try:
    return type(a) is type(b) and bool(a == b)
  except Exception:  # pylint:disable=broad-except
    return False


def _contract(base):
  from crosshair.tracers import NoTracing  # noqa: F401  (kept for symmetry)
  from malt.operators import variables

  def fail(msg):
    raise ContractViolation(msg)

  def eval_name(fr, name):
    try:
      return True, eval(name, fr.f_globals, fr.f_locals)  # pylint:disable=eval-used
    except Exception as e:  # pylint:disable=broad-except
      return False, e

  def check_state(kind, fr, get_state, set_state, names):
    CONTRACT['calls'] += 1
    if not isinstance(names, tuple) or not all(isinstance(n, str) for n in names):
      fail('%s: symbol_names is not a tuple of str: %r' % (kind, names))
    if _arity(get_state) != 0:
      fail('%s: get_state must take no argument' % kind)
    if _arity(set_state) != 1:
      fail('%s: set_state must take exactly one argument' % kind)
    s1 = get_state()
    s2 = get_state()
    if not isinstance(s1, tuple):
      fail('%s: get_state() returned %r, not a tuple' % (kind, type(s1)))
    if len(s1) != len(names):
      fail('%s: len(get_state())=%d but len(symbol_names)=%d %r' % (kind, len(s1), len(names), names))
    for i, n in enumerate(names):
      if not _same(s1[i], s2[i]):
        fail('%s: reading state has an effect on %s' % (kind, n))
      ok, v = eval_name(fr, n)
      if ok:
        if not _same(v, s1[i]):
          fail('%s: get_state()[%d] is not the value of %r in the enclosing function' % (kind, i, n))
      elif not isinstance(s1[i], variables.Undefined):
        fail('%s: %r cannot be evaluated in the enclosing function (%r) but state holds %r' % (
            kind, n, v, s1[i]))
    # write-then-read, in two phases so that a sentinel never replaces an object
    # another state entry is a component of (`l` and `l[0]` may both be state):
    #   phase A: sentinels in simple names that are not the root of a composite
    #   phase B: sentinels in composite entries that are not a prefix of another
    def root(n):
      k = 0
      while k < len(n) and (n[k].isalnum() or n[k] == '_'):
        k += 1
      return n[:k]

    comp = [not n.isidentifier() for n in names]
    roots = set(root(n) for n, c in zip(names, comp) if c)
    undefined_composite = any(isinstance(s1[i], variables.Undefined) and comp[i]
                              for i in range(len(names)))
    phase_a = [i for i, n in enumerate(names) if not comp[i] and n not in roots]
    phase_b = [i for i, n in enumerate(names) if comp[i] and not any(
        m != n and (m.startswith(n + '.') or m.startswith(n + '[')) for m in names)]
    for phase in (phase_a, phase_b):
      if not phase or undefined_composite:
        continue
      vals = list(s1)
      for i in phase:
        vals[i] = _Sent(i)
      vals = tuple(vals)
      set_state(vals)
      s3 = get_state()
      if len(s3) != len(vals):
        fail('%s: state length changed after set_state' % kind)
      for i in phase:
        n = names[i]
        if s3[i] is not vals[i]:
          fail('%s: write then read of %s does not return what was written' % (kind, n))
        ok, v = eval_name(fr, n)
        if not ok or v is not vals[i]:
          fail('%s: set_state()[%d] did not bind %r in the enclosing function' % (kind, i, n))
      set_state(s1)
      s4 = get_state()
      for i, n in enumerate(names):
        if not _same(s4[i], s1[i]):
          fail('%s: writing back what was read changed %s' % (kind, n))

  def if_stmt(cond, body, orelse, get_state, set_state, symbol_names, nouts):
    fr = sys._getframe(1)
    check_state('if_stmt', fr, get_state, set_state, symbol_names)
    if not isinstance(nouts, int) or not 0 <= nouts <= len(symbol_names):
      fail('if_stmt: nouts=%r out of bounds for %r' % (nouts, symbol_names))
    if _arity(body) != 0 or _arity(orelse) != 0:
      fail('if_stmt: body/orelse must take no argument')
    # outputs first: attribute/subscript state is never "input only" (only simple variables that
    # are live into but not out of the statement are), so it must sit in the first nouts slots
    for i, nm in enumerate(symbol_names):
      if not nm.isidentifier() and i >= nouts:
        fail('if_stmt: composite state %r at position %d is outside the %d declared outputs %r' % (
            nm, i, nouts, symbol_names))
    return base.if_stmt(cond, body, orelse, get_state, set_state, symbol_names, nouts)

  def check_opts(kind, opts, first_log_entry):
    if not isinstance(opts, dict):
      fail('%s: opts is not a dict' % kind)
    exp_opts = CONTRACT.get('loop_opts')
    if exp_opts is None:
      return
    if (not isinstance(first_log_entry, tuple) or len(first_log_entry) != 2
        or first_log_entry[0] != 'loop'):
      return
    lid = first_log_entry[1]
    want = dict(exp_opts.get(lid, {}))
    got = dict((k, v) for k, v in opts.items() if k != 'iterate_names')
    if want != got:
      fail('%s: loop %r carries options %r, user placed %r' % (kind, lid, got, want))
    names = (CONTRACT.get('iter_names') or {}).get(lid)
    if kind == 'for_stmt' and names is not None and opts.get('iterate_names') != names:
      fail('for_stmt: loop %r iterate_names=%r, expected %r' % (lid, opts.get('iterate_names'), names))

  def while_stmt(test, body, get_state, set_state, symbol_names, opts):
    from vf import rt
    fr = sys._getframe(1)
    check_state('while_stmt', fr, get_state, set_state, symbol_names)
    if _arity(test) != 0 or _arity(body) != 0:
      fail('while_stmt: test/body must take no argument')
    if 'iterate_names' in opts:
      fail('while_stmt: unexpected iterate_names')

    def wbody():
      mark = len(rt.LOG)
      try:
        return body()
      finally:
        if len(rt.LOG) > mark:
          check_opts('while_stmt', opts, rt.LOG[mark])

    return base.while_stmt(test, wbody, get_state, set_state, symbol_names, opts)

  def for_stmt(iter_, extra_test, body, get_state, set_state, symbol_names, opts):
    from vf import rt
    fr = sys._getframe(1)
    check_state('for_stmt', fr, get_state, set_state, symbol_names)
    if _arity(body) != 1:
      fail('for_stmt: body must take exactly one argument')
    if extra_test is not None and _arity(extra_test) != 0:
      fail('for_stmt: extra_test must take no argument')
    if not isinstance(opts, dict) or not isinstance(opts.get('iterate_names'), str):
      fail('for_stmt: opts must carry iterate_names')

    def wbody(itr):
      mark = len(rt.LOG)
      try:
        return body(itr)
      finally:
        if len(rt.LOG) > mark:
          check_opts('for_stmt', opts, rt.LOG[mark])

    return base.for_stmt(iter_, extra_test, wbody, get_state, set_state, symbol_names, opts)

  def and_(a, b):
    if _arity(a) != 0 or _arity(b) != 0:
      fail('and_: operands must be zero-argument callables')
    return base.and_(a, b)

  def or_(a, b):
    if _arity(a) != 0 or _arity(b) != 0:
      fail('or_: operands must be zero-argument callables')
    return base.or_(a, b)

  def if_exp(cond, if_true, if_false, expr_repr):
    if _arity(if_true) != 0 or _arity(if_false) != 0:
      fail('if_exp: branches must be zero-argument callables')
    if not isinstance(expr_repr, str):
      fail('if_exp: expr_repr must be a str')
    return base.if_exp(cond, if_true, if_false, expr_repr)

  return {'if_stmt': if_stmt, 'while_stmt': while_stmt, 'for_stmt': for_stmt,
          'and_': and_, 'or_': or_, 'if_exp': if_exp}


def post_contract(mode, f, g, args, env):
  """C03 postcondition: no contract violation on this path, and same behaviour."""
  from vf import rt
  CONTRACT['loop_opts'] = mode.get('loop_opts')
  CONTRACT['iter_names'] = mode.get('iter_names')
  try:
    og = rt.obs(_raising(g, ContractViolation), args, env)
  except _Escape:
    return False
  return rt.same_obs(rt.obs(f, args, env), og)


class _Escape(BaseException):

  def __init__(self, e):
    BaseException.__init__(self)
    self.e = e


def _raising(g, exc_types):
  """Wraps g so that harness exceptions pass through rt.obs's `except Exception`."""

  def run(*a, **k):
    try:
      return g(*a, **k)
    except exc_types as e:
      raise _Escape(e)

  def outer(*a, **k):
    return run(*a, **k)

  return outer


def post_functional(mode, f, g, args, env):
  from vf import rt
  return rt.same_obs(rt.obs(f, args, env), rt.obs(g, args, env))


# ---------------------------------------------------------------------------
# opaque tracer backend (C04)
# ---------------------------------------------------------------------------

class T(object):
  """Opaque traced value: arithmetic and comparisons work, truth testing does not."""
  __slots__ = ('v',)

  def __init__(self, v):
    self.v = v.v if isinstance(v, T) else v

  def __bool__(self):
    raise NativeBool('native truth test on a traced value')

  def __index__(self):
    # range(T) needs a real int: under CrossHair the symbolic value is realised
    # (the solver forks over the admissible values; n is bounded by the harness)
    v = self.v
    if type(v) is not int and type(v) is not bool:
      from crosshair.core import realize
      v = realize(v)
    return v.__index__()

  def __repr__(self):
    # (a plain str even when the wrapped value is symbolic: CPython requires __str__ to
    # return an exact str, e.g. for print)
    from crosshair.core import realize
    return realize('T(%r)' % (self.v,))

  def __hash__(self):
    return hash(self.v)


def _u(x):
  return x.v if isinstance(x, T) else x


def _binop(name):
  import operator
  op = getattr(operator, name)

  def fwd(self, other):
    return T(op(self.v, _u(other)))

  def rev(self, other):
    return T(op(_u(other), self.v))

  return fwd, rev


for _n in ('add', 'sub', 'mul', 'floordiv', 'mod'):
  _f, _r = _binop(_n)
  setattr(T, '__%s__' % _n, _f)
  setattr(T, '__r%s__' % _n, _r)
for _n in ('lt', 'le', 'gt', 'ge', 'eq', 'ne'):
  _f, _r = _binop(_n)
  setattr(T, '__%s__' % _n, _f)
T.__neg__ = lambda self: T(-self.v)
T.__pos__ = lambda self: T(+self.v)
T.__invert__ = lambda self: T(~self.v)
T.__abs__ = lambda self: T(abs(self.v))


def unwrap(x):
  if isinstance(x, T):
    return unwrap(x.v)
  if isinstance(x, tuple):
    return tuple(unwrap(e) for e in x)
  if isinstance(x, list):
    return [unwrap(e) for e in x]
  if isinstance(x, dict):
    return dict((k, unwrap(v)) for k, v in x.items())
  return x


OPAQUE = {'stack': [], 'checking': False}


def _wrap_args(args):
  """x, b and list elements are opaque; the loop bound n (position 1) stays a plain
  int because CrossHair's range() model rejects objects that only have __index__."""
  out = []
  for i, a in enumerate(args):
    if i == 1:
      out.append(a)
    elif isinstance(a, list):
      out.append([T(e) for e in a])
    else:
      out.append(T(a))
  return tuple(out)


def chk(name):
  """Called first thing by user callees in C04 programs."""
  if not OPAQUE['checking']:
    return 0
  st = OPAQUE['stack']
  # converted code reaches chk itself through converted_call, so the callee
  # being entered is one below the top
  if len(st) < 2 or st[-1] is not chk:
    raise NotDispatched('chk(%r) itself was not dispatched' % name)
  target = st[-2]
  tn = getattr(target, '__name__', None)
  if tn is None and hasattr(target, 'func'):
    tn = getattr(target.func, '__name__', None)
  if tn != name and tn != '<lambda>':
    raise NotDispatched('%r entered but the innermost dispatch is for %r' % (name, tn))
  return 0


def _opaque(base):

  def if_stmt(cond, body, orelse, get_state, set_state, symbol_names, nouts):
    return base.if_stmt(_u(cond), body, orelse, get_state, set_state, symbol_names, nouts)

  def while_stmt(test, body, get_state, set_state, symbol_names, opts):
    return base.while_stmt(lambda: _u(test()), body, get_state, set_state, symbol_names, opts)

  def for_stmt(iter_, extra_test, body, get_state, set_state, symbol_names, opts):
    et = None if extra_test is None else (lambda: _u(extra_test()))

    def items():
      for it in _u(iter_):
        if isinstance(it, tuple):
          yield tuple(e if isinstance(e, T) else T(e) for e in it)
        else:
          yield it if isinstance(it, T) else T(it)

    return base.for_stmt(items(), et, body, get_state, set_state, symbol_names, opts)

  def and_(a, b):
    av = a()
    if _u(av):
      return b()
    return av

  def or_(a, b):
    av = a()
    if _u(av):
      return av
    return b()

  def not_(a):
    return T(not _u(a))

  def if_exp(cond, if_true, if_false, expr_repr):
    return if_true() if _u(cond) else if_false()

  def eq(a, b):
    return T(_u(a) == _u(b))

  def not_eq(a, b):
    return T(_u(a) != _u(b))

  real_cc = base.converted_call

  def converted_call(f, args, kwargs, caller_fn_scope=None, options=None):
    OPAQUE['stack'].append(f)
    try:
      if f is range and not kwargs:
        # CPython's range accepts any object with __index__ (so does the overload); CrossHair's
        # model of range only takes ints, so opaque loop bounds are unwrapped here
        args = tuple(_u(a) if isinstance(a, T) else a for a in args)
      return real_cc(f, args, kwargs, caller_fn_scope, options)
    finally:
      OPAQUE['stack'].pop()

  return {'if_stmt': if_stmt, 'while_stmt': while_stmt, 'for_stmt': for_stmt,
          'and_': and_, 'or_': or_, 'not_': not_, 'if_exp': if_exp, 'eq': eq,
          'not_eq': not_eq, 'converted_call': converted_call}


def post_opaque(mode, f, g, args, env):
  """C04 postcondition: the converted function never truth-tests an opaque value
  natively, never enters a user callee outside converted_call, and computes f."""
  from vf import rt
  wrapped = _wrap_args(args)
  OPAQUE['checking'] = False
  of = rt.obs(f, args, env)
  OPAQUE['checking'] = True
  del OPAQUE['stack'][:]
  try:
    og = rt.obs(_raising(g, (NativeBool, NotDispatched)), wrapped, env)
  except _Escape:
    return False
  finally:
    OPAQUE['checking'] = False
  og = unwrap(og)
  return rt.same_obs(of, (og[0], og[1], og[2], og[3]))


chk.autograph_info__ = None   # infrastructure, run as-is by converted_call

OVERRIDES = {'functional': _functional, 'contract': _contract, 'opaque': _opaque}


def debug_run(mode, f, g, args, env):
  """Text describing what g does on args under this mode's postcondition (replay aid)."""
  import traceback
  from vf import rt
  post = mode.get('post')
  if post == 'opaque':
    wrapped = _wrap_args(args)
    OPAQUE['checking'] = True
    del OPAQUE['stack'][:]
    try:
      try:
        return 'converted(opaque) returned %r' % (unwrap(g(*wrapped)),)
      except BaseException as e:  # pylint:disable=broad-except
        tb = traceback.extract_tb(e.__traceback__)
        where = ' <- '.join('%s:%d %s' % (fr.filename.split('/')[-1], fr.lineno, (fr.line or '').strip()[:100]) for fr in tb[-3:])
        return 'converted(opaque) raised %s: %s\n   at %s' % (type(e).__name__, e, where)
    finally:
      OPAQUE['checking'] = False
  if post == 'errors':
    post_errors(mode, f, g, args, env)
    return 'why: %s' % (C12['why'],)
  if post == 'contract':
    CONTRACT['loop_opts'] = mode.get('loop_opts')
    CONTRACT['iter_names'] = mode.get('iter_names')
    try:
      return 'converted(contract) returned %r' % (g(*args),)
    except BaseException as e:  # pylint:disable=broad-except
      return 'converted(contract) raised %s: %s' % (type(e).__name__, e)
  return ''


# ---------------------------------------------------------------------------
# C16: conversion-status context around generated code
# ---------------------------------------------------------------------------

def probe(tag):
  """Logs the conversion status seen at this point (artifact: runs as-is)."""
  from malt.core import ag_ctx
  from vf import rt
  rt.LOG.append(('status', tag, ag_ctx.control_status_ctx().status.name))
  return 0


probe.autograph_info__ = None


def post_ctx(mode, f, g, args, env):
  """After g(args) - returning or raising - the status object is the one from before,
  the stack is unchanged, and every probe saw the status its tag promises."""
  from malt.core import ag_ctx
  from vf import rt
  before = ag_ctx.control_status_ctx()
  depth = len(ag_ctx._control_ctx())
  og = rt.obs(g, args, env)
  if ag_ctx.control_status_ctx() is not before or len(ag_ctx._control_ctx()) != depth:
    return False
  want = {'E': 'ENABLED', 'D': 'DISABLED', 'U': 'UNSPECIFIED'}
  for e in og[1]:
    if isinstance(e, tuple) and len(e) == 3 and e[0] == 'status':
      if want[e[1][0]] != e[2]:
        return False
  of = rt.obs(f, args, env)
  strip = lambda o: (o[0], [e for e in o[1] if not (isinstance(e, tuple) and e and e[0] == 'status')], o[2], o[3])
  return rt.same_obs(strip(of), strip(og))


# ---------------------------------------------------------------------------
# C12: errors reported at the original source location
# ---------------------------------------------------------------------------

class CustomInitError(Exception):
  """User exception whose constructor needs extra arguments."""

  def __init__(self, a, b):
    Exception.__init__(self, '%s/%s' % (a, b))
    self.a = a


class CustomValueError(ValueError):
  """Derives from a builtin in KNOWN_STRING_CONSTRUCTOR_ERRORS but has its own constructor."""

  def __init__(self, code, limit):
    ValueError.__init__(self, 'code %s over %s' % (code, limit))
    self.code = code


class CodeError(RuntimeError):
  """One non-message constructor argument, formatted by the class."""

  def __init__(self, code):
    RuntimeError.__init__(self, 'E-%d' % code)
    self.code = code


C12 = {'why': None}


def _user_frames(tb, filename):
  import traceback
  return [(fr.lineno, fr.name) for fr in traceback.extract_tb(tb) if fr.filename == filename]


def _top_level_ranges(filename):
  import ast
  with open(filename) as fh:
    tree = ast.parse(fh.read())
  out = []
  for n in tree.body:
    if isinstance(n, ast.FunctionDef):
      out.append((n.lineno, n.end_lineno, n.name))
  return out


_RANGES = {}


def post_errors(mode, f, g, args, env):
  """C12 postcondition (see vf/checks/C12.py)."""
  from malt.pyct import error_utils
  from malt.impl import api
  from vf import rt
  C12['why'] = None
  filename = f.__code__.co_filename
  del rt.LOG[:]
  if env is not None:
    env.reset()
  a1 = tuple(list(a) if isinstance(a, list) else a for a in args)
  ef = None
  try:
    rf = f(*a1)
  except Exception as e:  # pylint:disable=broad-except
    ef = e
  log_f = list(rt.LOG)
  del rt.LOG[:]
  if env is not None:
    env.reset()
  a2 = tuple(list(a) if isinstance(a, list) else a for a in args)
  eg = None
  try:
    rg = g(*a2)
  except Exception as e:  # pylint:disable=broad-except
    eg = e
  log_g = list(rt.LOG)
  if (ef is None) != (eg is None):
    C12['why'] = 'outcome kind differs: original %r, converted %r' % (ef, eg)
    return False
  if ef is None:
    if not rt.same_value((rf, log_f), (rg, log_g)):
      C12['why'] = 'results differ'
      return False
    return True
  if not rt.same_value(log_f, log_g):
    C12['why'] = 'tracer logs differ before the failure'
    return False
  # --- exception type rule -------------------------------------------------
  tf, tg = type(ef), type(eg)
  same_required = (tf in error_utils.KNOWN_STRING_CONSTRUCTOR_ERRORS or tf is KeyError or
                   (tf.__module__ != 'builtins' and '__init__' not in tf.__dict__ and '__new__' not in tf.__dict__
                    and all('__init__' not in b.__dict__ and '__new__' not in b.__dict__
                            for b in tf.__mro__ if b.__module__ != 'builtins')))
  staging_required = tf.__module__ != 'builtins' and not same_required
  if same_required and not (tg is tf or (tf is KeyError and isinstance(eg, KeyError))):
    C12['why'] = 'exception type %s became %s' % (tf.__name__, tg.__name__)
    return False
  if staging_required and tg is not api.StagingError:
    C12['why'] = 'exception type %s (own constructor) became %s, expected StagingError' % (tf.__name__, tg.__name__)
    return False
  if not same_required and not staging_required and tg not in (tf, api.StagingError):
    C12['why'] = 'exception type %s became %s' % (tf.__name__, tg.__name__)
    return False
  # --- message ---------------------------------------------------------------
  msg = str(ef)
  # (the exact message of the NameError family is allowed to differ: reads of unbound
  # variables are reported by ag__.ld with its own wording)
  if msg and not isinstance(ef, NameError) and msg not in str(eg):
    C12['why'] = 'original message %r not contained in %r' % (msg, str(eg)[:200])
    return False
  # --- location ----------------------------------------------------------------
  md = getattr(eg, 'ag_error_metadata', None)
  if md is None:
    C12['why'] = 'no ag_error_metadata on the exception'
    return False
  frames_f = _user_frames(ef.__traceback__, filename)       # outermost first
  if not frames_f:
    return True
  if filename not in _RANGES:
    _RANGES[filename] = _top_level_ranges(filename)

  def unit(lineno):
    for lo, hi, name in _RANGES[filename]:
      if lo <= lineno <= hi:
        return name
    return None

  # one entry per separately converted function on the call path: the innermost
  # frame of each maximal run of frames belonging to the same top-level function
  expected = []
  for ln, nm in frames_f:
    u = unit(ln)
    if expected and expected[-1][0] == u:
      expected[-1] = (u, ln)
    else:
      expected.append((u, ln))
  expected_innermost_first = [ln for _, ln in reversed(expected)]
  listed = [fi for fi in md.translated_stack if fi.filename == filename]
  conv = [fi.lineno for fi in listed if fi.is_converted]
  if not listed or listed[0].lineno != frames_f[-1][0]:
    C12['why'] = 'innermost reported user line %r, original failing line %r' % (
        [fi.lineno for fi in listed[:1]], frames_f[-1][0])
    return False
  if mode.get('all_units_converted', True):
    if conv != expected_innermost_first:
      C12['why'] = 'reported converted frames %r, expected (one per converted function, innermost first) %r' % (
          conv, expected_innermost_first)
      return False
  else:
    # with do_not_convert callees only a subsequence of the units is converted
    it = iter(expected_innermost_first)
    if not all(any(c == e for e in it) for c in conv) or not conv:
      C12['why'] = 'reported converted frames %r are not a subsequence of %r' % (conv, expected_innermost_first)
      return False
  # the innermost reported frame names the function whose frame failed in the original
  # (comprehensions and lambdas, which CPython names '<...>', have no counterpart to compare)
  want_name = frames_f[-1][1]
  if not want_name.startswith('<') and listed[0].function_name != want_name:
    C12['why'] = 'innermost reported frame is attributed to function %r, the original traceback says %r (line %d)' % (
        listed[0].function_name, want_name, frames_f[-1][0])
    return False
  # every listed user frame is a frame of the original traceback, in order
  rev = [ln for ln, _ in reversed(frames_f)]
  k = 0
  for fi in listed:
    while k < len(rev) and rev[k] != fi.lineno:
      k += 1
    if k == len(rev):
      C12['why'] = 'listed frame line %d is not a frame of the original traceback %r' % (fi.lineno, rev)
      return False
    k += 1
  return True
