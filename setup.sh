#!/bin/sh
# Build the overlay venv used by every check (offline; idempotent).
set -e
cd "$(dirname "$0")"
V=/verif/.venv
[ -d "$(pwd)/vf" ] && V="$(pwd)/.venv"
if [ ! -x "$V/bin/python" ] || ! "$V/bin/python" -c 'import crosshair, z3, malt' 2>/dev/null; then
  rm -rf "$V"
  /venv/bin/python -m venv "$V"
  SP=$("$V/bin/python" -c 'import sysconfig; print(sysconfig.get_paths()["purelib"])')
  printf "import site; site.addsitedir('/venv/lib/python3.12/site-packages')\n/repo\n" > "$SP/verif_overlay.pth"
  PIP_NO_INDEX=1 "$V/bin/pip" install -q --no-index --find-links /opt/veriftools/wheels crosshair-tool z3-solver jsonschema >/dev/null
fi
"$V/bin/python" -c 'import crosshair, z3, malt; print("overlay ok", malt.__file__)'
